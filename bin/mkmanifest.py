#!/usr/bin/env python3
"""Regenerates MANIFEST.json from the table below (claimed checks) — run by hand after editing."""
import json, os
V = os.path.dirname(os.path.dirname(os.path.abspath(__file__)))
TRUST = ("Trusted: rustc, Kani 0.68 MIR->GOTO, CBMC 6.11, CaDiCaL, std count_ones/leading_zeros; allocation never fails; "
         "models and stubs named in each evidence sample; the induction / parametricity / composition arguments listed under assumptions. "
         "Bounded: nothing is claimed outside the bounds written in the evidence samples.")
C = {
 "C01": ("Real QWaveletTree code (new, get, rank, rank_prefetch, select and the unchecked forms) model-checked over a contract model of the per-level vector whose unchecked methods assert their preconditions: contents symbolic (length 3 quick / 4 thorough, one element pinned to T::MAX so the level count is concrete; u8 quick, u16..u128 thorough), every query argument over the machine range; concrete alphabets with fewer levels; empty and Default trees. The real RSQVector is C05; composition by parametricity is an argument.",
         "Kani/CBMC bounded model checking of the generic tree code over a contract model (SAT); counterexamples replayed natively", "§3 C01"),
 "C03": ("Plain binary WaveletTree over a contract model of a level (ModelBRS): get/rank/select laws, symbols above max give None in rank and select, empty/Default trees; u8 length 3 quick, wider types thorough. The Huffman variant (HWT) is outside: its builder is not explorable.",
         "Kani/CBMC bounded model checking of the generic tree code over a contract model (SAT)", "§3 C03"),
 "C04": ("Kani's built-in bounds / pointer / overflow / panic-reachability checks on every path of the harnesses of all other properties, with every argument of safe methods unconstrained except the documented panics; quick tier = empty/Default states of every type plus the all-argument observers, thorough = every harness.",
         "Kani/CBMC safety checks on all harness paths (SAT), both debug-assertion profiles", "§3 C04"),
 "C05": ("Quad DataLine kernels for all 2^512 lines, SuperblockPlain records for all counters, select_block/rank_block on assembled directories with arbitrary per-block populations (B=256 and 512), select_intra_block/rank_intra_block on symbolic lines (select_in_word_u128 by its C17 contract), RSQVector256/512 end-to-end through the constructors on 0..3 symbols.",
         "Kani/CBMC: kernels at full width + stage contracts on assembled directories + tiny end-to-end (SAT)", "§3 C05"),
 "C06": ("512-bit DataLine rank/select kernels for all lines, directory records of RSWide and RSNarrow, select stages on assembled directories with any admissible hints, RSWide::new on one symbolic line, empty/Default vectors. RSNarrow::new with symbolic contents is a stated gap (thorough, optional).",
         "Kani/CBMC: kernels at full width + stage contracts with weakest preconditions (SAT)", "§3 C06"),
 "C07": ("DArray through the layout invariant of flush_block (groups of 1/33/65 positions with symbolic base and stride around the 65536 threshold; 1024 thorough), select on symbolic bit contents under that layout for ones and zeros, DArray::new on small concrete vectors with symbolic k.",
         "Kani/CBMC: representation-invariant route (layout law + query stage + small constructors) (SAT)", "§3 C07"),
 "C08": ("One symbolic operation (push, set, set_bits, append_bits, extend_with_zeros, Extend<bool>, Extend<usize>) from an arbitrary valid state assembled under the representation invariant (all contents, all lengths of a 512-bit line), with the invariant re-established as a post-condition; every observer (get, get_word, get_bits for all (index,len), counts, conversions, Clone, ==) on such a state. Histories of any length follow by induction (argument).",
         "Kani/CBMC inductive one-step checking from arbitrary invariant states (SAT)", "§3 C08"),
 "C09": ("rank_prefetch == rank for all arguments on the model trees with arbitrary block estimates; PrefetchSupport stage contract on 3 symbolic symbols; crate feature prefetch on/off by a structural diff of the two nightly MIR dumps of the current tree (only prefetch_read_NTA may differ) — the latter is labelled a structural check, not a solver verdict.",
         "Kani/CBMC (SAT) + structural MIR diff for the feature flag", "§3 C09"),
 "C10": ("Every *_unchecked method is compared with its checked twin under 'the checked twin returns Some' inside the kernel, stage, tiny and model-tree harnesses, in builds with (A) and without (B) debug assertions.",
         "Kani/CBMC differential harnesses checked vs unchecked, two cfg profiles (SAT)", "§3 C10"),
 "C12": ("One call next/next_back/len from an arbitrary reachable iterator state: WTIterator over a contract model of an indexed sequence (length 0..=5), BitVectorIter/IntoIter and QVectorIterator over assembled vectors, position iterators by a first-hit law and a chain law for every start position of the machine range. Call histories of any length follow by induction (argument).",
         "Kani/CBMC inductive one-step checking of iterator state machines (SAT)", "§3 C12"),
 "C13": ("QVectorBuilder/QVector through push, extend, collect, with_capacity for 12 integer types with symbolic values (lengths 0,3,4,7) and at the 256-symbol line edge (256/258 with symbolic symbols around it): len, is_empty, get for every index, both iterators.",
         "Kani/CBMC bounded model checking through the public constructors (SAT)", "§3 C13"),
 "C16": ("space_usage_byte vs. retained bytes (size_of_val + owned buffers) on assembled RSSupportPlain, BitVector/BitVectorMut and DArray/Inventories with symbolic independent buffer lengths; tolerance retained/32 + 24 bytes per component; KiB/MiB/GiB scaling.",
         "Kani/CBMC accounting identity over symbolic sizes (SAT)", "§3 C16"),
 "C17": ("select_in_word for all 2^64 words and k<64, select_in_word_u128 for all 2^128 words and k<128, popcnt_wide N=0..9, msb for all values of six types, stable_partition_of_4/2 against a fixed-array reference on slices of length <=3 (u8), 2 (u16..u64), 1 (u128) with symbolic contents and shift. text_remap excluded (hash based).",
         "Kani/CBMC bounded model checking of kernels at full width (SAT)", "§3 C17"),
 "C18": ("Send+Sync of every public structure as a compile-time obligation; after a batch of queries with symbolic arguments the value equals its snapshot and repeated queries agree (BitVector, model QWT). Thread interleavings are not enumerated: reduction to purity + Sync, stated.",
         "compile-time auto-trait obligation + Kani/CBMC purity harnesses (SAT); schedules by reduction", "§3 C18"),
 "C19": ("new / From<Vec> / collect give equal trees, Clone is equal, a sequence differing in one symbolic position gives an unequal tree (QWT and WT over the models, length 3); the same concrete numbers carried in u8/u32/u64/u128 answer identically; RSQVector and bit-vector construction paths in C05/C08 harnesses.",
         "Kani/CBMC path-vs-path and width-vs-width equality harnesses (SAT)", "§3 C19"),
}
NA = [
 ("C02", "Huffman builder (std HashMap + minimum_redundancy, allocation sizes depending on #distinct symbols) does not get through symbolic execution (3 symbolic symbols >25 min; 7 concrete symbols with a stubbed hash seed >20 min); a check that cannot run the builder cannot decide a property about trees built from S."),
 ("C11", "A bincode round trip of a one-word BitVector does not leave symbolic execution in 20 min; serde/bincode plumbing offers the solver nothing to decide."),
 ("C14", "Asymptotic bound (r separates from the additive term only at n >~ 10^4); sizes cannot be symbolic through heap-allocating constructors, heap bytes are not observable under Kani, and at reachable n<=10 every violation is indistinguishable from the allowed slack."),
 ("C15", "Needs the Huffman builder (C02) and inputs of hundreds of symbols before the entropy bound is tight enough to be violated by anything."),
]
m = {
 "version": 1,
 "setup_cmd": "bin/setup",
 "hooks": {"guard": "cfg(kani) (set only by the Kani compiler; no source hook is committed to /repo)",
           "enable": "bin/check copies /repo's working tree to a scratch directory and appends `#[cfg(kani)] #[path=...] pub(crate) mod verif_<x>;` lines to the copy; /repo itself is never edited",
           "baseline_off_cmd": "cd /repo && cargo nextest run --workspace --no-fail-fast --offline --test-threads 8 || cargo test --workspace --no-fail-fast --offline",
           "source_commits": [], "add_only": True},
 "engines": [{"name": "kani-cbmc", "path": "bin/check", "serves_properties": sorted(C),
              "kind_free_text": "Kani 0.68 -> CBMC 6.11 -> CaDiCaL bounded model checking of the compiled real code; harnesses are cfg(kani) overlay modules appended to a scratch copy of the current tree; counterexamples replayed natively through Kani concrete playback"}],
 "checks": [],
 "not_applicable": [{"property_id": p, "reason": r} for p, r in NA],
 "notes": "All claims are bounded: each evidence sample states its bound. Exit 2 = inconclusive (timeout, solver memory, unsatisfied cover, unreproduced counterexample), exit 3 = overlay does not compile against the tree. Fixed defects are listed in known_findings.json (fixed:), the one unrepaired finding (BitVectorMut::get_bits >=, asserted by the unedited suite) under findings.",
}
PENDING = set(os.environ.get("PENDING","").split(",")) - {""}
for pid in sorted(C):
    if pid in PENDING:
        m["not_applicable"].append({"property_id": pid, "reason": "check built (see DESIGN.md) - final timing run pending in this session; not claimed in this snapshot"})
        continue
    text, tech, ref = C[pid]
    m["checks"].append({"property_id": pid, "quick_cmd": "bin/check %s --tier quick" % pid, "thorough_cmd": "bin/check %s --tier thorough" % pid,
                        "evidence_file": "evidence/%s.json" % pid, "replay_cmd_template": "bin/check %s --replay {path}" % pid, "engine": "kani-cbmc",
                        "level_claimed": {"category": "model_checking", "text": text, "design_ref": "DESIGN.md " + ref},
                        "level_note": TRUST, "technique": tech})
json.dump(m, open(os.path.join(V, "MANIFEST.json"), "w"), indent=1)
print("checks:", len(m["checks"]), "n/a:", len(m["not_applicable"]))
