#!/usr/bin/env python3
"""Reads the lines written by bin/seedtest (SEED <name>: check <PID> exit=<n> :: ...) and updates seeded/*/meta.json;
prints the markdown table used in DESIGN.md section 5."""
import re, json, os, sys
V = os.path.dirname(os.path.dirname(os.path.abspath(__file__)))
res = {}
for path in sys.argv[1:]:
    for line in open(path):
        m = re.match(r"SEED (\S+): check (\S+) exit=(\d+) :: (\d+) violations; (.*)", line)
        if not m:
            continue
        name, pid, ex, nv, rest = m.groups()
        hs = sorted(set(re.findall(r"\(([a-z0-9_]+)\[[ABP]\]\)", rest)))
        inc = re.findall(r"INCONCLUSIVE: ([a-z0-9_]+)", rest)
        res.setdefault(name, {})[pid] = {"exit": int(ex), "violations": int(nv), "harnesses": hs, "inconclusive": inc}
rows = []
for name in sorted(os.listdir(os.path.join(V, "seeded"))):
    mp = os.path.join(V, "seeded", name, "meta.json")
    meta = json.load(open(mp))
    r = res.get(name)
    if r:
        meta["detected_by"] = r
        meta["what_i_ran"] = "bin/seedtest seeded/%s %s %s  (scratch worktree of /repo HEAD + patch; VERIF_REPO=<worktree> bin/check <PID> --tier quick)" % (name, name, " ".join(r))
        json.dump(meta, open(mp, "w"), indent=1)
    det = []
    for pid, x in (r or {}).items():
        if x["exit"] == 1:
            det.append("%s quick: VIOLATION (%s)" % (pid, ", ".join(x["harnesses"][:3])))
        elif x["exit"] == 2:
            det.append("%s quick: inconclusive (%s)" % (pid, ", ".join(x["inconclusive"][:2])))
        elif x["exit"] == 3:
            det.append("%s quick: overlay does not compile" % pid)
        else:
            det.append("%s quick: not detected" % pid)
    what = meta["what_it_needs_to_manifest"].split("\n")[0][:110]
    rows.append("| %s | %s | %s |" % (name, what.replace("|", "/"), "; ".join(det) or "(not run)"))
print("| seed | change (first line of the author's note) | result |\n|---|---|---|")
print("\n".join(rows))
