#!/usr/bin/env python3
"""Reads the lines written by bin/seedtest (SEED <name>: check <PID> exit=<n> :: ...) and updates seeded/*/meta.json;
prints the markdown table used in DESIGN.md section 5."""
import re, json, os, sys
V = os.path.dirname(os.path.dirname(os.path.abspath(__file__)))
res = {}
for path in sys.argv[1:]:
    for line in open(path):
        m = re.match(r"SEED (\S+): check (\S+) exit=(\d+) :: (\d+) violations; (.*)", line)
        if not m:
            continue
        name, pid, ex, nv, rest = m.groups()
        hs = sorted(set(re.findall(r"\(([a-z0-9_]+)\[[ABP]\]\)", rest)))
        inc = re.findall(r"INCONCLUSIVE: ([a-z0-9_]+)", rest)
        res.setdefault(name, {}).setdefault(pid, []).append({"exit": int(ex), "violations": int(nv), "harnesses": hs, "inconclusive": inc})
rows = []
for name in sorted(os.listdir(os.path.join(V, "seeded"))):
    mp = os.path.join(V, "seeded", name, "meta.json")
    meta = json.load(open(mp))
    r = res.get(name)
    if r:
        meta["detected_by"] = r
        meta["what_i_ran"] = "bin/seedtest seeded/%s %s %s  (scratch worktree of /repo HEAD + patch; VERIF_REPO=<worktree> bin/check <PID> --tier quick)" % (name, name, " ".join(r))
        json.dump(meta, open(mp, "w"), indent=1)
    det = []
    for pid, runs in (r or {}).items():
        parts = []
        for x in runs:
            if x["exit"] == 1:
                parts.append("VIOLATION (%s)" % (", ".join(x["harnesses"][:3]) or "compile-time Send/Sync obligation"))
            elif x["exit"] == 2:
                parts.append("inconclusive, exit 2 (%s)" % ", ".join(x["inconclusive"][:2]))
            elif x["exit"] == 3:
                parts.append("overlay does not compile, exit 3")
            else:
                parts.append("not detected")
        det.append("%s quick: %s" % (pid, "  →  after strengthening: ".join(parts)))
    what = meta["what_it_needs_to_manifest"].split("\n")[0][:110]
    rows.append("| %s | %s | %s |" % (name, what.replace("|", "/"), "; ".join(det) or "(not run)"))
print("| seed | change (first line of the author's note) | result |\n|---|---|---|")
print("\n".join(rows))
