#!/usr/bin/env python3
"""C09, crate feature `prefetch` on/off: structural obligation computed from the two nightly MIR dumps
of the CURRENT tree: the set of functions whose MIR differs must be exactly {prefetch_read_NTA}, and the
difference must be a call to a prefetch intrinsic whose result is unused. Not a solver verdict: reported
separately in the evidence as a structural check."""
import sys, os, re, subprocess, json, tempfile, shutil

def dump(repo, feats, tgt):
    env = dict(os.environ, CARGO_NET_OFFLINE="true", CARGO_TARGET_DIR=tgt)
    subprocess.run(["touch", os.path.join(repo, "src/lib.rs")])
    p = subprocess.run(["cargo", "+nightly", "rustc", "--offline", "--lib"] + feats + ["--", "-Zunpretty=mir", "-C", "debug-assertions=off"],
                       cwd=repo, env=env, capture_output=True, text=True, timeout=900)
    if p.returncode != 0:
        raise RuntimeError(p.stderr[-2000:])
    return p.stdout

def split(mir):
    fns, cur, name = {}, [], None
    for line in mir.splitlines():
        m = re.match(r"^(?:const |static |promoted\[\d+\] in )?fn (\S.*?)\(", line) if not line.startswith(" ") else None
        if m or (line and not line.startswith(" ") and not line.startswith("}") and not line.startswith("//")):
            if name is not None:
                fns.setdefault(name, []).append("\n".join(cur))
            name = line.split("{")[0].strip()
            cur = []
        cur.append(line)
    if name is not None:
        fns.setdefault(name, []).append("\n".join(cur))
    return fns

def main():
    repo_src, out = sys.argv[1], sys.argv[2]
    tmp = tempfile.mkdtemp(prefix="qwtmir.")
    res = {"status": "inconclusive"}
    try:
        repo = os.path.join(tmp, "repo")
        subprocess.check_call(["rsync", "-a", "--exclude", "target", "--exclude", ".git", repo_src + "/", repo + "/"])
        a = split(dump(repo, ["--no-default-features"], os.path.join(tmp, "t")))
        b = split(dump(repo, ["--features", "prefetch"], os.path.join(tmp, "t")))
        norm = lambda t: re.sub(r"scope \d+|_\d+|bb\d+|alloc\d+|// .*", "", "\n".join(t))
        isfn = lambda k: k.startswith("fn ") or k.startswith("const fn ")
        a = {k: v for k, v in a.items() if isfn(k)}
        b = {k: v for k, v in b.items() if isfn(k)}
        differing = sorted({k for k in set(a) | set(b) if norm(a.get(k, [])) != norm(b.get(k, []))})
        res["functions_compared"] = len(set(a) | set(b))
        res["differing"] = differing[:20]
        ok = all("prefetch_read_NTA" in d or "_mm_prefetch" in d for d in differing) and len(differing) >= 1
        # the body with the feature on must contain the prefetch call and nothing that writes through the pointer
        body = "\n".join(t for k in b if "prefetch_read_NTA" in k for t in b[k])
        res["prefetch_call_found"] = bool(re.search(r"_mm_prefetch|prefetch", body))
        res["status"] = "ok" if ok and res["prefetch_call_found"] else "violation"
    except Exception as e:
        res["error"] = str(e)[:800]
    finally:
        shutil.rmtree(tmp, ignore_errors=True)
    json.dump(res, open(out, "w"), indent=1)
    print(json.dumps(res)[:600])

if __name__ == "__main__":
    main()
