//! Contract model of one wavelet-tree level (`RS: RSforWT`) - no harnesses. Child module of `quadwt`.
//! The real tree code is generic over the level structure; it is instantiated with this model, whose
//! `*_unchecked` methods ASSERT their documented preconditions and whose hint methods return values that are
//! only constrained by their documented contract. That the real RSQVector256/512 meets the same contract
//! is C05's business.
#![allow(dead_code)]
use super::*;
use crate::{AccessQuad, RankQuad, SelectQuad, SpaceUsage, WTSupport};

pub(crate) const CAP: usize = 6;

#[derive(Clone, PartialEq, Debug, Default)]
pub(crate) struct ModelRS {
    pub(crate) data: [u8; CAP],
    pub(crate) len: usize,
}

impl ModelRS {
    fn count(&self, symbol: u8, i: usize) -> usize {
        let mut c = 0;
        let mut j = 0;
        while j < CAP {
            if j < i && j < self.len && self.data[j] == symbol {
                c += 1;
            }
            j += 1;
        }
        c
    }
}

impl From<QVector> for ModelRS {
    fn from(qv: QVector) -> Self {
        assert!(qv.len() <= CAP);
        let mut m = ModelRS { data: [0; CAP], len: qv.len() };
        let mut j = 0;
        while j < CAP {
            if j < qv.len() {
                m.data[j] = qv.get(j).unwrap();
            }
            j += 1;
        }
        core::mem::forget(qv);
        m
    }
}

impl AccessQuad for ModelRS {
    fn get(&self, i: usize) -> Option<u8> {
        if i < self.len {
            Some(self.data[i])
        } else {
            None
        }
    }
    unsafe fn get_unchecked(&self, i: usize) -> u8 {
        assert!(i < self.len, "get_unchecked: documented precondition (index in bounds) violated by the caller");
        self.data[i]
    }
}

impl RankQuad for ModelRS {
    fn rank(&self, symbol: u8, i: usize) -> Option<usize> {
        if symbol > 3 || i > self.len {
            None
        } else {
            Some(self.count(symbol, i))
        }
    }
    unsafe fn rank_unchecked(&self, symbol: u8, i: usize) -> usize {
        assert!(symbol <= 3 && i <= self.len, "rank_unchecked: documented precondition violated by the caller");
        self.count(symbol, i)
    }
}

impl SelectQuad for ModelRS {
    fn select(&self, symbol: u8, k: usize) -> Option<usize> {
        if symbol > 3 {
            return None;
        }
        let mut seen = 0usize;
        let mut j = 0;
        while j < CAP {
            if j < self.len && self.data[j] == symbol {
                if seen == k {
                    return Some(j);
                }
                seen += 1;
            }
            j += 1;
        }
        None
    }
    unsafe fn select_unchecked(&self, symbol: u8, k: usize) -> usize {
        let r = self.select(symbol, k);
        assert!(r.is_some(), "select_unchecked: documented precondition (occurrence exists) violated by the caller");
        r.unwrap()
    }
}

impl WTSupport for ModelRS {
    fn occs(&self, symbol: u8) -> Option<usize> {
        if symbol > 3 {
            None
        } else {
            Some(self.count(symbol, CAP))
        }
    }
    unsafe fn occs_unchecked(&self, symbol: u8) -> usize {
        assert!(symbol <= 3, "occs_unchecked: symbol > 3");
        self.count(symbol, CAP)
    }
    fn occs_smaller(&self, symbol: u8) -> Option<usize> {
        if symbol > 3 {
            return None;
        }
        Some(unsafe { self.occs_smaller_unchecked(symbol) })
    }
    unsafe fn occs_smaller_unchecked(&self, symbol: u8) -> usize {
        assert!(symbol <= 3, "occs_smaller_unchecked: symbol > 3");
        let mut c = 0;
        let mut s = 0u8;
        while s < 4 {
            if s < symbol {
                c += self.count(s, CAP);
            }
            s += 1;
        }
        c
    }
    /// "rank of symbol up to the block that contains position i": any value not above the true rank.
    unsafe fn rank_block_unchecked(&self, symbol: u8, i: usize) -> usize {
        assert!(symbol <= 3 && i <= self.len, "rank_block_unchecked: documented precondition violated by the caller");
        let v: usize = kani::any();
        kani::assume(v <= self.count(symbol, i));
        v
    }
    /// Hints: any position is acceptable and nothing is touched.
    fn prefetch_info(&self, _pos: usize) {}
    fn prefetch_data(&self, _pos: usize) {}
}

impl SpaceUsage for ModelRS {
    fn space_usage_byte(&self) -> usize {
        CAP + 8
    }
}

/// Element-wise stand-in for `<[T]>::copy_from_slice` (CBMC's memcpy model with a symbolic byte count
/// yields spurious counterexamples; see c17_utils).
pub(crate) fn copy_elemwise<T: Copy>(dst: &mut [T], src: &[T]) {
    assert!(dst.len() == src.len());
    let mut i = 0;
    while i < src.len() {
        dst[i] = src[i];
        i += 1;
    }
}

/// Fixed-array stable partitions with the contract of `utils::stable_partition_of_4/2` (the real functions
/// are decided against the same reference in c17_utils; inside tree harnesses their `Vec`s chosen by a
/// symbolic key dominate the cost).
pub(crate) fn part4_stub<T>(sequence: &mut [T], shift: usize)
where
    T: num_traits::Unsigned + num_traits::PrimInt + Ord + std::ops::Shr<usize> + AsPrimitive<usize>,
    usize: AsPrimitive<T>,
{
    let n = sequence.len();
    assert!(n <= CAP);
    let mut buf = [T::zero(); CAP];
    let mut pos = 0;
    let mut g = 0usize;
    while g < 4 {
        let mut i = 0;
        while i < n {
            let key: usize = (sequence[i] >> shift).as_() & 3;
            if key == g {
                buf[pos] = sequence[i];
                pos += 1;
            }
            i += 1;
        }
        g += 1;
    }
    let mut i = 0;
    while i < n {
        sequence[i] = buf[i];
        i += 1;
    }
}

/// Contract stubs for the hard-wired `PrefetchSupport` (its own stage contract is decided in c09):
/// `new` builds nothing, `approx_rank_unchecked` returns a monotone multiple of the sample rate.
pub(crate) fn pfs_new_stub(_qv: &QVector, sample_rate_shift: usize) -> PrefetchSupport {
    let mut p = PrefetchSupport::default();
    p.verif_set_shift(sample_rate_shift);
    p
}
pub(crate) unsafe fn pfs_approx_stub(_this: &PrefetchSupport, symbol: u8, i: usize) -> usize {
    assert!(symbol <= 3, "approx_rank_unchecked: symbol > 3");
    (i >> 11) << 11
}

/// Feature `prefetch` on: Kani has no model of the prefetch intrinsic; a hint has no effect on values.
pub(crate) fn noop_prefetch<T>(_data: &[T], _offset: usize) {}
