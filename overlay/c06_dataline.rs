//! C06 (kernel layer) — the 512-bit `bitvector::DataLine` against its own `get`: local laws, all 2^512 lines.
use super::*;

fn any_line() -> DataLine {
    DataLine { words: kani::any() }
}
#[inline]
fn lbit(dl: &DataLine, i: usize) -> bool {
    (dl.words[i >> 6] >> (i & 63)) & 1 == 1
}

// @h props=C06,C04:t,C10 tier=quick family=K prof=AB mem=5 timeout=1200 role=bitvector.dataline.rank1
// @bound all 2^512 lines; position i over 0..=512 (law rank1(0)=0, rank1(i+1)=rank1(i)+[bit i]); checked rank1 over all usize; n_ones/n_zeros
// @funcs bitvector::DataLine::rank1_unchecked, bitvector::DataLine::rank1, bitvector::DataLine::get, bitvector::DataLine::get_unchecked, bitvector::DataLine::n_ones, bitvector::DataLine::n_zeros
#[kani::proof]
#[kani::unwind(10)]
fn c06_line_rank1_law() {
    let dl = any_line();
    assert!(unsafe { dl.rank1_unchecked(0) } == 0);
    let i: usize = kani::any();
    kani::assume(i < 512);
    let g = dl.get(i).unwrap();
    assert!(g == lbit(&dl, i));
    let r0 = unsafe { dl.rank1_unchecked(i) };
    let r1 = unsafe { dl.rank1_unchecked(i + 1) };
    assert!(r1 == r0 + g as usize);
    // totals
    assert!(dl.n_ones() == unsafe { dl.rank1_unchecked(512) });
    assert!(dl.n_zeros() == 512 - dl.n_ones());
    // checked variant: Some exactly for positions 0..=512
    let p: usize = kani::any();
    let rp = dl.rank1(p);
    if p <= 512 {
        assert!(rp == Some(unsafe { dl.rank1_unchecked(p) }));
    } else {
        assert!(rp.is_none());
    }
    kani::cover!(i == 511 && g, "last bit set");
    kani::cover!(i % 64 == 63, "word boundary");
    kani::cover!(p == usize::MAX, "largest position");
}

// @h props=C06,C08 tier=quick family=K mem=5 timeout=1200 role=bitvector.dataline.set_symbol
// @bound all lines, all positions < 512, symbol any u64 (only its lowest bit counts)
// @funcs bitvector::DataLine::set_symbol
#[kani::proof]
#[kani::unwind(10)]
fn c06_line_set_symbol_law() {
    let dl0 = any_line();
    let mut dl = dl0;
    let i: usize = kani::any();
    kani::assume(i < 512);
    let s: u64 = kani::any();
    dl.set_symbol(s, i);
    let j: usize = kani::any();
    kani::assume(j < 512);
    if j == i {
        assert!(lbit(&dl, j) == (s & 1 == 1));
    } else {
        assert!(lbit(&dl, j) == lbit(&dl0, j));
    }
    kani::cover!(lbit(&dl0, i) && s & 1 == 0, "a one is cleared");
    kani::cover!(s > 1, "symbol with stray high bits");
}

// @h props=C06,C04:t,C10 tier=quick family=K mem=6 timeout=1800 stubs=utils::select_in_word->contract(c17_select_in_word_law) role=bitvector.dataline.select1
// @bound all 2^512 lines, every k below the number of ones: result p < 512, bit p set, rank1(p) == k; select_in_word replaced by its contract (decided for all words in C17)
// @funcs bitvector::DataLine::select1_unchecked, bitvector::DataLine::rank1_unchecked
#[kani::proof]
#[kani::unwind(10)]
#[kani::stub(crate::utils::select_in_word, crate::utils::verif_utils_stubs::select_in_word_contract)]
fn c06_line_select1_law() {
    let dl = any_line();
    let k: usize = kani::any();
    kani::assume(k < dl.n_ones());
    let p = unsafe { dl.select1_unchecked(k) };
    assert!(p < 512);
    assert!(lbit(&dl, p));
    assert!(unsafe { dl.rank1_unchecked(p) } == k);
    kani::cover!(p == 511, "last bit selected");
}

// @h props=C06,C04:t,C10:t tier=quick family=K mem=6 timeout=1800 stubs=utils::select_in_word->contract(c17_select_in_word_law) role=bitvector.dataline.select0
// @bound all 2^512 lines, every k below the number of zeros: result p < 512, bit p clear, p - rank1(p) == k; select_in_word replaced by its contract
// @funcs bitvector::DataLine::select0_unchecked, bitvector::DataLine::rank1_unchecked
#[kani::proof]
#[kani::unwind(10)]
#[kani::stub(crate::utils::select_in_word, crate::utils::verif_utils_stubs::select_in_word_contract)]
fn c06_line_select0_law() {
    let dl = any_line();
    let k: usize = kani::any();
    kani::assume(k < dl.n_zeros());
    let p = unsafe { dl.select0_unchecked(k) };
    assert!(p < 512);
    assert!(!lbit(&dl, p));
    assert!(p - unsafe { dl.rank1_unchecked(p) } == k);
    kani::cover!(p == 511, "last bit selected");
}

/// Two symbolic words (positions a < b chosen symbolically), the six others symbolic as well but the
/// selected one/zero is required to lie in word b: the scan over earlier words + select_in_word.
macro_rules! line_select_words {
    ($name:ident, $sel:ident, $want:expr) => {
        #[kani::proof]
        #[kani::unwind(10)]
        fn $name() {
            // restrict the population: every word is one of {0, !0, symbolic} so that the pop-count
            // reasoning stays word-local; two words are fully symbolic
            let mut dl = DataLine::default();
            let a: usize = kani::any();
            let b: usize = kani::any();
            kani::assume(a < 8 && b < 8);
            let wa: u64 = kani::any();
            let wb: u64 = kani::any();
            let fill: [bool; 8] = kani::any();
            let mut w = 0;
            while w < 8 {
                dl.words[w] = if w == a { wa } else if w == b { wb } else if fill[w] { !0 } else { 0 };
                w += 1;
            }
            let k: usize = kani::any();
            let total = if $want { dl.n_ones() } else { dl.n_zeros() };
            kani::assume(k < total);
            let p = unsafe { dl.$sel(k) };
            assert!(p < 512);
            assert!(lbit(&dl, p) == $want);
            let r1 = unsafe { dl.rank1_unchecked(p) };
            assert!((if $want { r1 } else { p - r1 }) == k);
            kani::cover!(p >> 6 == 7, "answer in the last word");
            kani::cover!(p >> 6 == b && a != b, "answer in a symbolic word");
        }
    };
}
// @h props=C06,C10:t tier=thorough family=K mem=5 timeout=3000 role=bitvector.dataline.select1
// @bound lines with two fully symbolic words at symbolic positions and the other six each all-ones or all-zeros (symbolic choice); every valid k
// @funcs bitvector::DataLine::select1_unchecked, utils::select_in_word, bitvector::DataLine::rank1_unchecked
line_select_words!(c06_line_select1_two_words, select1_unchecked, true);
// @h props=C06,C10:t tier=thorough family=K mem=5 timeout=3000 role=bitvector.dataline.select0
// @bound as above for select0
// @funcs bitvector::DataLine::select0_unchecked, utils::select_in_word, bitvector::DataLine::rank1_unchecked
line_select_words!(c06_line_select0_two_words, select0_unchecked, false);

// @h props=C06 tier=quick family=K mem=4 timeout=600 expect=fail role=bitvector.dataline.twin
// @bound deliberately false twin: claims rank1(i+1) == rank1(i)
// @funcs bitvector::DataLine::rank1_unchecked
#[kani::proof]
#[kani::unwind(10)]
fn c06_line_false_twin() {
    let dl = any_line();
    let i: usize = kani::any();
    kani::assume(i < 512);
    assert!(unsafe { dl.rank1_unchecked(i + 1) } == unsafe { dl.rank1_unchecked(i) });
}
