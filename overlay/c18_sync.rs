//! C18 — Send + Sync for every public query structure (compile-time obligation: this module does not
//! compile otherwise), no write through `&self` and repeatable answers (solver). Thread schedules are not
//! enumerated: read-only operations on memory that nobody writes are interleaving independent (argument,
//! listed under assumptions). Child module of the crate root.
use super::*;
use crate::bitvector::verif_bv_common::*;

fn assert_send_sync<T: Send + Sync>() {}

// @h props=C18 tier=quick family=E mem=4 timeout=600 nocover=ok role=send_sync
// @bound compile-time: Send + Sync for BitVector, BitVectorMut, QVector, RSQVector256/512, RSNarrow, RSWide, DArray<false/true>, the 8 quad tree aliases, WT, HWT over u8/u64/u128, and their iterators
// @funcs (auto traits)
#[kani::proof]
fn c18_send_sync() {
    assert_send_sync::<BitVector>();
    assert_send_sync::<BitVectorMut>();
    assert_send_sync::<QVector>();
    assert_send_sync::<RSQVector256>();
    assert_send_sync::<RSQVector512>();
    assert_send_sync::<RSNarrow>();
    assert_send_sync::<RSWide>();
    assert_send_sync::<DArray<false>>();
    assert_send_sync::<DArray<true>>();
    assert_send_sync::<QWT256<u8>>();
    assert_send_sync::<QWT512<u64>>();
    assert_send_sync::<QWT256Pfs<u128>>();
    assert_send_sync::<QWT512Pfs<u16>>();
    assert_send_sync::<HQWT256<u8>>();
    assert_send_sync::<HQWT512<u32>>();
    assert_send_sync::<HQWT256Pfs<u64>>();
    assert_send_sync::<HQWT512Pfs<u8>>();
    assert_send_sync::<WT<u8>>();
    assert_send_sync::<HWT<u64>>();
    assert_send_sync::<WTIterator<u8, QWT256<u8>, &QWT256<u8>>>();
    assert_send_sync::<crate::bitvector::BitVectorIter<'static>>();
    assert_send_sync::<crate::bitvector::BitVectorBitPositionsIter<'static, true>>();
    assert!(true);
}

fn noop_eprint(_args: core::fmt::Arguments<'_>) {}

// @h props=C18 tier=quick family=A mem=6 timeout=1200 stubs=std::io::_eprint->empty role=purity.bitvector
// @bound BitVector, any valid state of 1..=512 bits: a batch of queries with symbolic arguments leaves the value equal to its snapshot and repeating each query gives the same answer
// @funcs BitVector::get, BitVector::get_bits, BitVector::get_word, BitVector::ones_with_pos, BitVector::zeros_with_pos, BitVector::iter, BitVector::eq
#[kani::proof]
#[kani::unwind(66)]
#[kani::stub(std::io::_eprint, noop_eprint)]
fn c18_purity_bitvector() {
    let (words, n) = any_words::<1>();
    let bv = mk_imm::<1>(&words, n);
    let snap = bv.clone();
    let i: usize = kani::any();
    let len: usize = kani::any();
    let wi: usize = kani::any();
    kani::assume(wi < 8);
    let a1 = bv.get(i);
    let b1 = bv.get_bits(i, len);
    let c1 = bv.get_word(wi);
    let d1 = bv.ones_with_pos(i).next();
    let e1 = bv.zeros_with_pos(i).next();
    let f1 = bv.iter().next();
    assert!(bv == snap);
    assert!(bv.get(i) == a1 && bv.get_bits(i, len) == b1 && bv.get_word(wi) == c1);
    assert!(bv.ones_with_pos(i).next() == d1 && bv.zeros_with_pos(i).next() == e1 && bv.iter().next() == f1);
    assert!(bv.len() == n && bv.count_ones() == snap.count_ones());
    kani::cover!(a1.is_some() && b1.is_some() && d1.is_some(), "queries that answer");
    core::mem::forget(bv);
    core::mem::forget(snap);
}
