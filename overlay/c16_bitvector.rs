//! C16 — reported vs. retained bytes: BitVector, BitVectorMut (capacity counts), RSWide, RSNarrow are
//! sums of these. Child module of `bitvector`.
use super::*;
use crate::SpaceUsage;
use std::mem::size_of;

fn within(reported: usize, retained: usize, components: usize) -> bool {
    let tol = retained / 32 + 24 * components;
    (if reported > retained { reported - retained } else { retained - reported }) <= tol
}

// @h props=C16,C04:t tier=quick family=A mem=6 timeout=1800 role=space.bitvector
// @bound BitVector with 0..=6 lines and BitVectorMut with length 0..=6 lines and capacity up to 8 (unused capacity is retained memory), lengths symbolic
// @funcs BitVector::space_usage_byte, BitVectorMut::space_usage_byte, Vec<T>::space_usage_byte, Box<[T]>::space_usage_byte, bitvector::DataLine::space_usage_byte
#[kani::proof]
#[kani::unwind(10)]
fn c16_bitvector() {
    let nl: usize = kani::any();
    kani::assume(nl <= 6);
    let mut v: Vec<DataLine> = Vec::with_capacity(8);
    let mut j = 0;
    while j < 6 {
        if j < nl {
            v.push(DataLine::default());
        }
        j += 1;
    }
    let m = BitVectorMut { data: v, n_bits: 512 * nl, n_ones: 0 };
    let rep_m = m.space_usage_byte();
    let ret_m = size_of::<BitVectorMut>() + 64 * m.data.capacity();
    assert!(within(rep_m, ret_m, 2));
    let im: BitVector = m.into();
    let rep_i = im.space_usage_byte();
    let ret_i = size_of::<BitVector>() + 64 * im.data.len();
    assert!(within(rep_i, ret_i, 2));
    assert!(im.space_usage_KiB() == rep_i as f64 / 1024.0);
    kani::cover!(nl == 0, "empty");
    kani::cover!(nl == 6, "six lines");
    core::mem::forget(im);
}
