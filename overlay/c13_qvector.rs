//! C13 — QVector / QVectorBuilder store exactly the pushed 2-bit symbols. Child module of `qvector`.
use super::*;
use crate::AccessQuad;

/// All observers against the expected symbols `exp[..n]`.
fn observe<const N: usize>(qv: &QVector, exp: &[u8; N], n: usize) {
    assert!(qv.len() == n);
    assert!(qv.is_empty() == (n == 0));
    // get for every index of the machine range
    let i: usize = kani::any();
    let g = qv.get(i);
    kani::cover!(n == 0 || i.wrapping_add(1) == n, "last element read");
    kani::cover!(i == n, "first index past the end");
    kani::cover!(i == usize::MAX, "largest index");
    if i < n {
        assert!(g == Some(exp[i]));
    } else {
        assert!(g.is_none());
    }
    // borrowing iterator: exactly the n symbols in order, then None for good
    let mut it = qv.iter();
    let mut j = 0;
    while j < n {
        assert!(it.next() == Some(exp[j]));
        j += 1;
    }
    assert!(it.next().is_none());
    assert!(it.next().is_none());
}

fn observe_into<const N: usize>(qv: QVector, exp: &[u8; N], n: usize) {
    let mut it = qv.into_iter();
    let mut j = 0;
    while j < n {
        assert!(it.next() == Some(exp[j]));
        j += 1;
    }
    assert!(it.next().is_none());
    assert!(it.next().is_none());
    core::mem::forget(it);
}

macro_rules! c13_small {
    ($name:ident, $t:ty, $n:expr) => {
        #[kani::proof]
        #[kani::unwind(66)] // derived == on a 64-byte DataLine is a 64-step memcmp loop
        fn $name() {
            const N: usize = $n;
            let vals: [$t; N] = kani::any();
            let mut exp = [0u8; N];
            let mut j = 0;
            while j < N {
                exp[j] = (vals[j] & 3) as u8; // the two least significant bits (two's complement for negatives)
                j += 1;
            }
            // path 1: collect
            let qv1: QVector = vals.iter().copied().collect();
            observe(&qv1, &exp, N);
            // path 2: builder + extend + build
            let mut b = QVectorBuilder::new();
            b.extend(vals.iter().copied());
            let qv2 = b.build();
            observe(&qv2, &exp, N);
            assert!(qv1 == qv2);
            // path 3: with_capacity + push of the truncated byte
            let mut b = QVectorBuilder::with_capacity(N);
            let mut j = 0;
            while j < N {
                b.push(vals[j] as u8);
                j += 1;
            }
            let qv3 = b.build();
            assert!(qv3 == qv1);
            observe_into(qv3, &exp, N);
            core::mem::forget(qv1);
            core::mem::forget(qv2);
        }
    };
}

// @h props=C13,C04:t tier=quick family=T mem=6 timeout=900 role=qvector.builder.u8
// @bound length 4, all values of u8 symbolic; get index over all usize; three construction paths
// @funcs QVectorBuilder::new, QVectorBuilder::with_capacity, QVectorBuilder::push, QVectorBuilder::extend, QVectorBuilder::build, QVector::from_iter, QVector::get, QVector::len, QVector::is_empty, QVector::iter, QVector::into_iter, QVectorIterator::next, qvector::DataLine::set_symbol, qvector::DataLine::get_unchecked
c13_small!(c13_small_u8, u8, 4);
// @h props=C13 tier=quick family=T mem=6 timeout=900 role=qvector.builder.i8
// @bound length 3, all values of i8 (negative included)
// @funcs QVectorBuilder::extend, QVector::from_iter, QVector::get
c13_small!(c13_small_i8, i8, 3);
// @h props=C13 tier=thorough family=T mem=6 timeout=900 role=qvector.builder.u16
// @bound length 3, all values of u16
// @funcs QVectorBuilder::extend, QVector::from_iter, QVector::get
c13_small!(c13_small_u16, u16, 3);
// @h props=C13 tier=thorough family=T mem=6 timeout=900 role=qvector.builder.i16
// @bound length 3, all values of i16
// @funcs QVectorBuilder::extend, QVector::from_iter, QVector::get
c13_small!(c13_small_i16, i16, 3);
// @h props=C13 tier=thorough family=T mem=6 timeout=900 role=qvector.builder.u32
// @bound length 3, all values of u32
// @funcs QVectorBuilder::extend, QVector::from_iter, QVector::get
c13_small!(c13_small_u32, u32, 3);
// @h props=C13 tier=quick family=T mem=6 timeout=900 role=qvector.builder.i32
// @bound length 3, all values of i32
// @funcs QVectorBuilder::extend, QVector::from_iter, QVector::get
c13_small!(c13_small_i32, i32, 3);
// @h props=C13 tier=thorough family=T mem=6 timeout=900 role=qvector.builder.u64
// @bound length 3, all values of u64
// @funcs QVectorBuilder::extend, QVector::from_iter, QVector::get
c13_small!(c13_small_u64, u64, 3);
// @h props=C13 tier=thorough family=T mem=6 timeout=900 role=qvector.builder.i64
// @bound length 3, all values of i64
// @funcs QVectorBuilder::extend, QVector::from_iter, QVector::get
c13_small!(c13_small_i64, i64, 3);
// @h props=C13 tier=thorough family=T mem=6 timeout=900 role=qvector.builder.usize
// @bound length 3, all values of usize
// @funcs QVectorBuilder::extend, QVector::from_iter, QVector::get
c13_small!(c13_small_usize, usize, 3);
// @h props=C13 tier=thorough family=T mem=6 timeout=900 role=qvector.builder.isize
// @bound length 3, all values of isize
// @funcs QVectorBuilder::extend, QVector::from_iter, QVector::get
c13_small!(c13_small_isize, isize, 3);
// @h props=C13 tier=quick family=T mem=6 timeout=900 role=qvector.builder.u128
// @bound length 3, all values of u128
// @funcs QVectorBuilder::extend, QVector::from_iter, QVector::get
c13_small!(c13_small_u128, u128, 3);
// @h props=C13 tier=thorough family=T mem=6 timeout=900 role=qvector.builder.i128
// @bound length 3, all values of i128
// @funcs QVectorBuilder::extend, QVector::from_iter, QVector::get
c13_small!(c13_small_i128, i128, 3);

// @h props=C13,C04:t tier=quick family=T mem=6 timeout=600 role=qvector.builder.empty
// @bound length 0: every get index, both iterators, Default and the three builder paths
// @funcs QVectorBuilder::new, QVectorBuilder::build, QVector::default, QVector::get, QVector::iter
#[kani::proof]
#[kani::unwind(4)]
fn c13_empty() {
    let exp = [0u8; 1];
    let qv = QVectorBuilder::new().build();
    observe(&qv, &exp, 0);
    let qd = QVector::default();
    observe(&qd, &exp, 0);
    assert!(qv.len() == qd.len());
    let e: [u8; 0] = [];
    let qc: QVector = e.iter().copied().collect();
    observe(&qc, &exp, 0);
    let qw = QVectorBuilder::with_capacity(0).build();
    observe_into(qw, &exp, 0);
}

/// Lengths across the 256-symbol line boundary: concrete prefix, symbolic symbols around the edge.
fn edge<const N: usize>(first_sym: usize) {
    let mut exp = [0u8; N];
    let mut b = QVectorBuilder::new();
    let mut j = 0;
    while j < N {
        let v: u8 = if j >= first_sym { kani::any() } else { (j % 4) as u8 };
        exp[j] = v & 3;
        b.push(v);
        j += 1;
    }
    let qv = b.build();
    assert!(qv.len() == N);
    assert!(!qv.is_empty());
    let i: usize = kani::any();
    let g = qv.get(i);
    if i < N {
        assert!(g == Some(exp[i]));
        kani::cover!(i == 255, "last symbol of the first line");
        kani::cover!(i + 1 == N, "last symbol");
    } else {
        assert!(g.is_none());
        kani::cover!(i == N, "first index past the end");
    }
    core::mem::forget(qv);
}

// @h props=C13,C04:t tier=quick family=T mem=5 timeout=1200 role=qvector.builder.edge258
// @bound length 258 (two lines): symbols 0..252 concrete (j mod 4), symbols 253..257 symbolic bytes; get index over all usize
// @funcs QVectorBuilder::push, QVectorBuilder::build, QVector::get, qvector::DataLine::set_symbol, qvector::DataLine::get_unchecked
#[kani::proof]
#[kani::unwind(260)]
fn c13_edge_258() {
    edge::<258>(253);
}

// @h props=C13 tier=quick family=T mem=5 timeout=1200 role=qvector.builder.edge256
// @bound length 256 (exactly one full line): symbols 0..250 concrete, 251..255 symbolic; get(256) must be None
// @funcs QVectorBuilder::push, QVectorBuilder::build, QVector::get
#[kani::proof]
#[kani::unwind(258)]
fn c13_edge_256() {
    edge::<256>(251);
}

// @h props=C13 tier=thorough family=T mem=5 timeout=1200 role=qvector.builder.edge257
// @bound length 257: symbols 252..256 symbolic
// @funcs QVectorBuilder::push, QVectorBuilder::build, QVector::get
#[kani::proof]
#[kani::unwind(259)]
fn c13_edge_257() {
    edge::<257>(252);
}

// @h props=C13 tier=quick family=T mem=4 timeout=600 expect=fail role=qvector.builder.twin
// @bound deliberately false twin: claims get(2) of a 3-symbol vector is always 0
// @funcs QVector::get
#[kani::proof]
#[kani::unwind(8)]
fn c13_false_twin() {
    let vals: [u8; 3] = kani::any();
    let qv: QVector = vals.iter().copied().collect();
    assert!(qv.get(2) == Some(0));
}

// @h props=C13 tier=quick family=T mem=5 timeout=900 role=qvector.builder.history
// @bound two mixed histories of concrete shape (push, extend 2, push, extend 3 / extend 2, push, push, extend 1) with symbolic i16 values
// @funcs QVectorBuilder::push, QVectorBuilder::extend, QVectorBuilder::build, QVector::get, QVector::len
#[kani::proof]
#[kani::unwind(66)]
fn c13_history() {
    let v: [i16; 7] = kani::any();
    let mut exp = [0u8; 7];
    let mut j = 0;
    while j < 7 {
        exp[j] = (v[j] & 3) as u8;
        j += 1;
    }
    let mut b = QVectorBuilder::new();
    b.push(v[0] as u8);
    b.extend([v[1], v[2]]);
    b.push(v[3] as u8);
    b.extend([v[4], v[5], v[6]]);
    let q1 = b.build();
    observe(&q1, &exp, 7);
    let mut b = QVectorBuilder::with_capacity(3);
    b.extend([v[0], v[1]]);
    b.push(v[2] as u8);
    b.push(v[3] as u8);
    b.extend([v[4]]);
    let q2 = b.build();
    observe(&q2, &exp, 5);
    core::mem::forget(q1);
    core::mem::forget(q2);
}
