//! C17 — word-level primitives (kernels, full width). Child module of `utils`.
use super::*;

// ---------------------------------------------------------------- select_in_word

// @h props=C17,C04:t tier=quick family=K mem=6 timeout=1500 role=utils.select_in_word
// @bound all 2^64 words w, all k < 64; no loops
// @funcs utils::select_in_word
#[kani::proof]
fn c17_select_in_word_law() {
    let w: u64 = kani::any();
    let k: u64 = kani::any();
    kani::assume(k < 64);
    let r = select_in_word(w, k);
    if (w.count_ones() as u64) > k {
        // position of the (k+1)-th set bit: bit r is set and exactly k set bits lie below it
        assert!(r < 64);
        assert!((w >> r) & 1 == 1);
        let below = w & ((1u64 << r) - 1);
        assert!(below.count_ones() as u64 == k);
        kani::cover!(r == 63, "last bit selected");
        kani::cover!(k == 31, "middle k");
    } else {
        assert!(r == 64);
        kani::cover!(w != 0, "not found in a non-zero word");
    }
}

// @h props=C17 tier=quick family=K mem=4 timeout=600 expect=fail role=utils.select_in_word.twin
// @bound deliberately false twin (vacuity witness): claims the result is never 64
// @funcs utils::select_in_word
#[kani::proof]
fn c17_select_in_word_false_twin() {
    let w: u64 = kani::any();
    let k: u64 = kani::any();
    kani::assume(k < 64);
    assert!(select_in_word(w, k) < 64);
}

// @h props=C17,C04:t tier=quick family=K mem=5 timeout=2400 role=utils.select_in_word_u128
// @bound all 2^128 words w, all k < 128; specified through the 64-bit law applied to the half that holds the answer
// @funcs utils::select_in_word_u128, utils::select_in_word
#[kani::proof]
fn c17_select_in_word_u128_law() {
    let w: u128 = kani::any();
    let k: u64 = kani::any();
    kani::assume(k < 128);
    let r = select_in_word_u128(w, k);
    if (w.count_ones() as u64) > k {
        assert!(r < 128);
        assert!((w >> r) & 1 == 1);
        let below = w & ((1u128 << r) - 1);
        assert!(below.count_ones() as u64 == k);
        kani::cover!(r >= 64, "answer in the high half");
        kani::cover!(r < 64, "answer in the low half");
    } else {
        assert!(r == 128);
        kani::cover!(w != 0, "not found in a non-zero word");
    }
}

// ---------------------------------------------------------------- popcnt_wide

// @h props=C17,C04:t tier=quick family=K mem=4 timeout=600 role=utils.popcnt_wide
// @bound 8 symbolic words, N = 0..8 and N = 9 (more than the slice holds); slice length 8 and a symbolic shorter prefix
// @funcs utils::popcnt_wide
#[kani::proof]
#[kani::unwind(11)]
fn c17_popcnt_wide_law() {
    let d: [u64; 8] = kani::any();
    assert!(popcnt_wide::<0>(&d) == 0);
    assert!(popcnt_wide::<1>(&d) == d[0].count_ones() as usize);
    assert!(popcnt_wide::<2>(&d) == popcnt_wide::<1>(&d) + d[1].count_ones() as usize);
    assert!(popcnt_wide::<3>(&d) == popcnt_wide::<2>(&d) + d[2].count_ones() as usize);
    assert!(popcnt_wide::<4>(&d) == popcnt_wide::<3>(&d) + d[3].count_ones() as usize);
    assert!(popcnt_wide::<5>(&d) == popcnt_wide::<4>(&d) + d[4].count_ones() as usize);
    assert!(popcnt_wide::<6>(&d) == popcnt_wide::<5>(&d) + d[5].count_ones() as usize);
    assert!(popcnt_wide::<7>(&d) == popcnt_wide::<6>(&d) + d[6].count_ones() as usize);
    assert!(popcnt_wide::<8>(&d) == popcnt_wide::<7>(&d) + d[7].count_ones() as usize);
    // the slice holds fewer than N words: only what is there is counted
    assert!(popcnt_wide::<9>(&d) == popcnt_wide::<8>(&d));
    let l: usize = kani::any();
    kani::assume(l <= 8);
    assert!(popcnt_wide::<8>(&d[..l]) <= 64 * l);
    kani::cover!(popcnt_wide::<8>(&d) == 512, "all ones");
    kani::cover!(popcnt_wide::<8>(&d) == 0, "all zeros");
}

// ---------------------------------------------------------------- msb

macro_rules! msb_law {
    ($name:ident, $t:ty, $bits:expr) => {
        #[kani::proof]
        fn $name() {
            let v: $t = kani::any();
            let m = msb(v);
            if v == 0 {
                assert!(m == 0);
            } else {
                assert!(m < $bits);
                assert!((v >> m) == 1);
                kani::cover!(m == $bits - 1, "top bit");
                kani::cover!(m == 0, "value one");
            }
        }
    };
}
// @h props=C17,C04:t tier=quick family=K mem=4 timeout=600 role=utils.msb.u8
// @bound all values of u8
// @funcs utils::msb
msb_law!(c17_msb_u8, u8, 8);
// @h props=C17,C04:t tier=quick family=K mem=4 timeout=600 role=utils.msb.u16
// @bound all values of u16
// @funcs utils::msb
msb_law!(c17_msb_u16, u16, 16);
// @h props=C17,C04:t tier=quick family=K mem=4 timeout=600 role=utils.msb.u32
// @bound all values of u32
// @funcs utils::msb
msb_law!(c17_msb_u32, u32, 32);
// @h props=C17,C04:t tier=quick family=K mem=4 timeout=600 role=utils.msb.u64
// @bound all values of u64
// @funcs utils::msb
msb_law!(c17_msb_u64, u64, 64);
// @h props=C17,C04:t tier=quick family=K mem=4 timeout=600 role=utils.msb.usize
// @bound all values of usize
// @funcs utils::msb
msb_law!(c17_msb_usize, usize, 64);
// @h props=C17,C04:t tier=quick family=K mem=4 timeout=600 role=utils.msb.u128
// @bound all values of u128
// @funcs utils::msb
msb_law!(c17_msb_u128, u128, 128);

// ---------------------------------------------------------------- stable partitions

/// Reference: stable partition by the `nkeys`-valued key `(a >> shift) & (nkeys-1)` on a fixed array.
fn ref_partition<T: Copy + PartialEq, const N: usize>(inp: &[T; N], n: usize, key: impl Fn(T) -> usize, nkeys: usize) -> [T; N] {
    let mut out = *inp;
    let mut pos = 0;
    let mut g = 0;
    while g < nkeys {
        let mut i = 0;
        while i < n {
            if key(inp[i]) == g {
                out[pos] = inp[i];
                pos += 1;
            }
            i += 1;
        }
        g += 1;
    }
    out
}

/// Element-wise replacement for `<[T]>::copy_from_slice`: CBMC's `memcpy` model with a *symbolic* byte count
/// produced counterexamples that do not exist (probe: u16, n = 2, values fixed by `assume`), so inside the
/// partition harnesses the copy is done by a bounded loop. Same contract (equal lengths, dst[i] = src[i]).
fn copy_elemwise<T: Copy>(dst: &mut [T], src: &[T]) {
    assert!(dst.len() == src.len());
    let mut i = 0;
    while i < src.len() {
        dst[i] = src[i];
        i += 1;
    }
}

macro_rules! partition_law {
    ($name:ident, $t:ty, $bits:expr, $n:expr, $unw:expr, $tier:ident) => {
        #[kani::proof]
        #[kani::unwind($unw)]
        #[kani::stub(<[$t]>::copy_from_slice, copy_elemwise)]
        fn $name() {
            const N: usize = $n;
            let inp: [$t; N] = kani::any();
            let shift: usize = kani::any();
            kani::assume(shift < $bits);
            // quad partition
            let mut s4 = inp;
            stable_partition_of_4(&mut s4[..], shift);
            let exp4 = ref_partition(&inp, N, |a: $t| ((a >> shift) & 3) as usize, 4);
            let mut i = 0;
            while i < N {
                assert!(s4[i] == exp4[i]);
                i += 1;
            }
            // binary partition
            let mut s2 = inp;
            stable_partition_of_2(&mut s2[..], shift);
            let exp2 = ref_partition(&inp, N, |a: $t| ((a >> shift) & 1) as usize, 2);
            let mut i = 0;
            while i < N {
                assert!(s2[i] == exp2[i]);
                i += 1;
            }
            kani::cover!(shift == $bits - 1, "largest shift");
            kani::cover!(N == 1 || s4[0] != inp[0], "something moved");
        }
    };
}

// @h props=C17,C04:t,C01:t,C19:t tier=quick family=K mem=5 timeout=1200 stubs=slice::copy_from_slice->elementwise_loop role=utils.stable_partition.u8
// @bound slices of length 2, contents and shift (< 8) symbolic; vs. a fixed-array stable partition
// @funcs utils::stable_partition_of_4, utils::stable_partition_of_2
partition_law!(c17_partition_u8_n2, u8, 8, 2, 6, quick);
// @h props=C17,C04:t tier=quick family=K mem=5 timeout=1200 stubs=slice::copy_from_slice->elementwise_loop role=utils.stable_partition.u16
// @bound slices of length 2, contents and shift (< 16) symbolic
// @funcs utils::stable_partition_of_4, utils::stable_partition_of_2
partition_law!(c17_partition_u16_n2, u16, 16, 2, 6, quick);
// @h props=C17,C04:t tier=quick family=K mem=5 timeout=1200 stubs=slice::copy_from_slice->elementwise_loop role=utils.stable_partition.u32
// @bound slices of length 2, contents and shift (< 32) symbolic
// @funcs utils::stable_partition_of_4, utils::stable_partition_of_2
partition_law!(c17_partition_u32_n2, u32, 32, 2, 6, quick);
// @h props=C17,C04:t tier=quick family=K mem=5 timeout=1200 stubs=slice::copy_from_slice->elementwise_loop role=utils.stable_partition.u64
// @bound slices of length 2, contents and shift (< 64) symbolic
// @funcs utils::stable_partition_of_4, utils::stable_partition_of_2
partition_law!(c17_partition_u64_n2, u64, 64, 2, 6, quick);
// @h props=C17,C04:t tier=quick family=K mem=5 timeout=1200 stubs=slice::copy_from_slice->elementwise_loop role=utils.stable_partition.usize
// @bound slices of length 2, contents and shift (< 64) symbolic
// @funcs utils::stable_partition_of_4, utils::stable_partition_of_2
partition_law!(c17_partition_usize_n2, usize, 64, 2, 6, quick);
// @h props=C17,C04:t,C01:t,C19:t tier=quick family=K mem=5 timeout=1500 stubs=slice::copy_from_slice->elementwise_loop role=utils.stable_partition.u128
// @bound slices of length 1, contents and shift (< 128) symbolic (length 2 on u128 exceeds 28 GB)
// @funcs utils::stable_partition_of_4, utils::stable_partition_of_2
partition_law!(c17_partition_u128_n1, u128, 128, 1, 6, quick);
// @h props=C17 tier=quick family=K mem=5 timeout=1200 stubs=slice::copy_from_slice->elementwise_loop role=utils.stable_partition.u8
// @bound slices of length 3, contents and shift (< 8) symbolic
// @funcs utils::stable_partition_of_4, utils::stable_partition_of_2
partition_law!(c17_partition_u8_n3, u8, 8, 3, 6, quick);
