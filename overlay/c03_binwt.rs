//! C03 / C10 / C19 — the real binary WaveletTree code (plain variant) over a contract model of a level
//! (ModelBRS). The Huffman variant (COMPRESSED = true) needs the hash-map based builder and is outside.
//! Child module of `binwt`.
use super::*;
use crate::{AccessBin, AccessUnsigned, BitVector, RankBin, RankUnsigned, SelectBin, SelectUnsigned, SpaceUsage};

pub(crate) const CAP: usize = 6;

#[derive(Clone, PartialEq, Debug, Default)]
pub(crate) struct ModelBRS {
    data: [bool; CAP],
    len: usize,
}

impl ModelBRS {
    fn count1(&self, i: usize) -> usize {
        let mut c = 0;
        let mut j = 0;
        while j < CAP {
            if j < i && j < self.len && self.data[j] {
                c += 1;
            }
            j += 1;
        }
        c
    }
    fn sel(&self, bit: bool, k: usize) -> Option<usize> {
        let mut seen = 0usize;
        let mut j = 0;
        while j < CAP {
            if j < self.len && self.data[j] == bit {
                if seen == k {
                    return Some(j);
                }
                seen += 1;
            }
            j += 1;
        }
        None
    }
}

impl From<BitVector> for ModelBRS {
    fn from(bv: BitVector) -> Self {
        assert!(bv.len() <= CAP);
        let mut m = ModelBRS { data: [false; CAP], len: bv.len() };
        let mut j = 0;
        while j < CAP {
            if j < bv.len() {
                m.data[j] = bv.get(j).unwrap();
            }
            j += 1;
        }
        core::mem::forget(bv);
        m
    }
}

impl AccessBin for ModelBRS {
    fn get(&self, i: usize) -> Option<bool> {
        if i < self.len {
            Some(self.data[i])
        } else {
            None
        }
    }
    unsafe fn get_unchecked(&self, i: usize) -> bool {
        assert!(i < self.len, "get_unchecked: documented precondition (index in bounds) violated by the caller");
        self.data[i]
    }
}

impl RankBin for ModelBRS {
    fn rank1(&self, i: usize) -> Option<usize> {
        if i > self.len {
            None
        } else {
            Some(self.count1(i))
        }
    }
    unsafe fn rank1_unchecked(&self, i: usize) -> usize {
        assert!(i <= self.len, "rank1_unchecked: documented precondition violated by the caller");
        self.count1(i)
    }
    fn n_zeros(&self) -> usize {
        self.len - self.count1(CAP)
    }
}

impl SelectBin for ModelBRS {
    fn select1(&self, k: usize) -> Option<usize> {
        self.sel(true, k)
    }
    unsafe fn select1_unchecked(&self, k: usize) -> usize {
        let r = self.sel(true, k);
        assert!(r.is_some(), "select1_unchecked: occurrence does not exist");
        r.unwrap()
    }
    fn select0(&self, k: usize) -> Option<usize> {
        self.sel(false, k)
    }
    unsafe fn select0_unchecked(&self, k: usize) -> usize {
        let r = self.sel(false, k);
        assert!(r.is_some(), "select0_unchecked: occurrence does not exist");
        r.unwrap()
    }
}

impl SpaceUsage for ModelBRS {
    fn space_usage_byte(&self) -> usize {
        CAP + 8
    }
}

fn copy_elemwise<T: Copy>(dst: &mut [T], src: &[T]) {
    assert!(dst.len() == src.len());
    let mut i = 0;
    while i < src.len() {
        dst[i] = src[i];
        i += 1;
    }
}

fn part2_stub<T>(sequence: &mut [T], shift: usize)
where
    T: num_traits::Unsigned + num_traits::PrimInt + Ord + std::ops::Shr<usize> + AsPrimitive<usize>,
    usize: AsPrimitive<T>,
{
    let n = sequence.len();
    assert!(n <= CAP);
    let mut buf = [T::zero(); CAP];
    let mut pos = 0;
    let mut g = 0usize;
    while g < 2 {
        let mut i = 0;
        while i < n {
            let key: usize = (sequence[i] >> shift).as_() & 1;
            if key == g {
                buf[pos] = sequence[i];
                pos += 1;
            }
            i += 1;
        }
        g += 1;
    }
    let mut i = 0;
    while i < n {
        sequence[i] = buf[i];
        i += 1;
    }
}

type Tree<T> = WaveletTree<T, ModelBRS, false>;

fn occ<T: PartialEq + Copy, const N: usize>(s: &[T; N], c: T, upto: usize) -> usize {
    let mut k = 0;
    let mut j = 0;
    while j < N {
        if j < upto && s[j] == c {
            k += 1;
        }
        j += 1;
    }
    k
}

macro_rules! any_seq {
    ($t:ty, $n:expr, $pin:expr) => {{
        let mut s: [$t; $n] = kani::any();
        s[$pin] = <$t>::MAX;
        s
    }};
}

macro_rules! wt_body {
    (0, $t:ty, $n:expr, $s:ident, $tr:ident, $i:ident, $c:ident) => {{
        let g = $tr.get($i);
        if $i < $n {
            assert!(g == Some($s[$i]));
            assert!(unsafe { $tr.get_unchecked($i) } == $s[$i]);
        } else {
            assert!(g.is_none());
        }
        // iter() / into_iter() start at (0, len): C12
        assert!($tr.iter().len() == $n);
        assert!($tr.iter().next() == Some($s[0]));
        kani::cover!($i == $n - 1, "last position");
        kani::cover!($i == usize::MAX, "largest position");
    }};
    (1, $t:ty, $n:expr, $s:ident, $tr:ident, $i:ident, $c:ident) => {{
        let r = $tr.rank($c, $i);
        if $i <= $n {
            assert!(r == Some(occ(&$s, $c, $i)));
            assert!(unsafe { $tr.rank_unchecked($c, $i) } == occ(&$s, $c, $i));
        } else {
            assert!(r.is_none());
        }
        kani::cover!($i == $n && r == Some(0), "c does not occur");
        kani::cover!($i == usize::MAX, "largest position");
    }};
    (2, $t:ty, $n:expr, $s:ident, $tr:ident, $i:ident, $c:ident) => {{
        let k = $i;
        let r = $tr.select($c, k);
        if k < occ(&$s, $c, $n) {
            let p = r.unwrap();
            assert!(p < $n && $s[p] == $c);
            assert!(occ(&$s, $c, p) == k);
            assert!(unsafe { $tr.select_unchecked($c, k) } == p);
        } else {
            assert!(r.is_none());
        }
        kani::cover!(k.wrapping_add(1) == occ(&$s, $c, $n) && k > 0, "last of several occurrences");
        kani::cover!(k == usize::MAX, "largest k");
        kani::cover!(occ(&$s, $c, $n) == 0, "symbol does not occur");
    }};
}

macro_rules! wt_laws {
    ($name:ident, $t:ty, $n:expr, $pin:expr, $levels:expr, $unw:expr, $what:tt) => {
        #[kani::proof]
        #[kani::unwind($unw)]
        #[kani::stub(crate::utils::stable_partition_of_2, part2_stub)]
        fn $name() {
            let s = any_seq!($t, $n, $pin);
            let mut w = s;
            let t = Tree::<$t>::new(&mut w[..]);
            assert!(t.len() == $n && !t.is_empty());
            assert!(t.n_levels() == $levels);
            let i: usize = kani::any();
            let c: $t = kani::any();
            wt_body!($what, $t, $n, s, t, i, c);
            core::mem::forget(t);
        }
    };
}
// @h props=C03,C04,C10,C12:t,C19:t tier=quick family=M prof=A mem=5 timeout=2400 stubs=ModelBRS,utils::stable_partition_of_2->fixed_array_reference(c17) role=wt.get.u8
// @bound WaveletTree<u8, ModelBRS, false>: length 3, contents symbolic with s[last] = 255 (8 levels): get for every index of the machine range
// @funcs WaveletTree::new, WaveletTree::get, WaveletTree::get_unchecked, WaveletTree::len, WaveletTree::n_levels, utils::stable_partition_of_2, BitVectorMut::push
wt_laws!(c03_get_u8_n3, u8, 3, 2, 8, 10, 0);
// @h props=C03,C04,C10 tier=quick family=M prof=A mem=5 timeout=2400 stubs=ModelBRS,utils::stable_partition_of_2->fixed_array_reference(c17) role=wt.rank.u8
// @bound WaveletTree<u8, ModelBRS, false>: length 3 (s[last] = 255): rank for every symbol and position, checked and unchecked
// @funcs WaveletTree::new, WaveletTree::rank, WaveletTree::rank_unchecked
wt_laws!(c03_rank_u8_n3, u8, 3, 2, 8, 10, 1);
// @h props=C03,C04,C10 tier=quick family=M mem=5 timeout=2400 stubs=ModelBRS,utils::stable_partition_of_2->fixed_array_reference(c17) role=wt.select.u8
// @bound WaveletTree<u8, ModelBRS, false>: length 3 (s[last] = 255): select for every symbol and every k, checked and unchecked
// @funcs WaveletTree::new, WaveletTree::select, WaveletTree::select_unchecked
wt_laws!(c03_select_u8_n3, u8, 3, 2, 8, 10, 2);
// @h props=C03 tier=thorough family=M mem=5 timeout=3000 stubs=ModelBRS,utils::stable_partition_of_2->fixed_array_reference(c17) role=wt.get.u16
// @bound WaveletTree<u16, ModelBRS, false>: length 3 (16 levels): get
// @funcs WaveletTree::new, WaveletTree::get
wt_laws!(c03_get_u16_n3, u16, 3, 2, 16, 18, 0);
// @h props=C03 tier=thorough family=M mem=5 timeout=3000 stubs=ModelBRS,utils::stable_partition_of_2->fixed_array_reference(c17) role=wt.get.u32
// @bound WaveletTree<u32, ModelBRS, false>: length 2 (32 levels): get
// @funcs WaveletTree::new, WaveletTree::get
wt_laws!(c03_get_u32_n2, u32, 2, 1, 32, 34, 0);
// @h props=C03,C19:t tier=thorough family=M mem=5 timeout=3600 stubs=ModelBRS,utils::stable_partition_of_2->fixed_array_reference(c17) role=wt.get.u64
// @bound WaveletTree<u64, ModelBRS, false>: length 2 (s[last] = u64::MAX, 64 levels): get - values that need more than 32 bits
// @funcs WaveletTree::new, WaveletTree::get
wt_laws!(c03_get_u64_n2, u64, 2, 1, 64, 66, 0);
// @h props=C03 tier=thorough family=M mem=5 timeout=3600 stubs=ModelBRS,utils::stable_partition_of_2->fixed_array_reference(c17) role=wt.rank.u64
// @bound WaveletTree<u64, ModelBRS, false>: length 2 (64 levels): rank
// @funcs WaveletTree::new, WaveletTree::rank
wt_laws!(c03_rank_u64_n2, u64, 2, 1, 64, 66, 1);
// @h props=C03 tier=thorough family=M mem=5 timeout=3600 stubs=ModelBRS,utils::stable_partition_of_2->fixed_array_reference(c17) role=wt.select.u64
// @bound WaveletTree<u64, ModelBRS, false>: length 2 (64 levels): select
// @funcs WaveletTree::new, WaveletTree::select
wt_laws!(c03_select_u64_n2, u64, 2, 1, 64, 66, 2);
// @h props=C03 tier=thorough family=M mem=5 timeout=3600 stubs=ModelBRS,utils::stable_partition_of_2->fixed_array_reference(c17) role=wt.get.u128
// @bound WaveletTree<u128, ModelBRS, false>: length 1 (128 levels): get
// @funcs WaveletTree::new, WaveletTree::get
wt_laws!(c03_get_u128_n1, u128, 1, 0, 128, 130, 0);

macro_rules! wt_concrete {
    ($name:ident, $t:ty, $seq:expr, $n:expr, $levels:expr, $unw:expr) => {
        #[kani::proof]
        #[kani::unwind($unw)]
        #[kani::stub(crate::utils::stable_partition_of_2, part2_stub)]
        fn $name() {
            let s: [$t; $n] = $seq;
            let mut w = s;
            let t = Tree::<$t>::new(&mut w[..]);
            let mut mx = s[0];
            let mut j = 0;
            while j < $n {
                if s[j] > mx {
                    mx = s[j];
                }
                j += 1;
            }
            assert!(t.len() == $n && t.n_levels() == $levels);
            let i: usize = kani::any();
            let c: $t = kani::any();
            let g = t.get(i);
            if i < $n {
                assert!(g == Some(s[i]));
            } else {
                assert!(g.is_none());
            }
            let r = t.rank(c, i);
            if c <= mx && i <= $n {
                assert!(r == Some(occ(&s, c, i))); // 0 for a symbol <= max that does not occur
            } else {
                assert!(r.is_none());
            }
            let k: usize = kani::any();
            let sel = t.select(c, k);
            if c <= mx && k < occ(&s, c, $n) {
                let p = sel.unwrap();
                assert!(p < $n && s[p] == c && occ(&s, c, p) == k);
            } else {
                // in particular a symbol above max(S) is never confused with another symbol
                assert!(sel.is_none());
            }
            kani::cover!(c > mx, "symbol above the maximum");
            kani::cover!(c <= mx && sel.is_some(), "valid symbol with an occurrence");
            core::mem::forget(t);
        }
    };
}
// @h props=C03,C04 tier=quick family=M mem=5 timeout=1800 stubs=ModelBRS,utils::stable_partition_of_2->fixed_array_reference(c17) role=wt.concrete.sigma5
// @bound concrete [1,0,2,4,5,3] (max 5: 3 levels), queries symbolic over the machine range: get, rank, select; symbols above max give None in rank AND select
// @funcs WaveletTree::new, WaveletTree::get, WaveletTree::rank, WaveletTree::select
wt_concrete!(c03_concrete_sigma5, u8, [1, 0, 2, 4, 5, 3], 6, 3, 10);
// @h props=C03 tier=quick family=M mem=5 timeout=1800 stubs=ModelBRS,utils::stable_partition_of_2->fixed_array_reference(c17) role=wt.concrete.two_symbols
// @bound concrete two-symbol sequence [0,1,1,0] (one level), queries symbolic
// @funcs WaveletTree::new, WaveletTree::get, WaveletTree::rank, WaveletTree::select
wt_concrete!(c03_concrete_two, u16, [0, 1, 1, 0], 4, 1, 10);
// @h props=C03 tier=quick family=M mem=5 timeout=1800 stubs=ModelBRS,utils::stable_partition_of_2->fixed_array_reference(c17) role=wt.concrete.one_symbol
// @bound concrete one-symbol sequence [0,0,0] (max 0), queries symbolic
// @funcs WaveletTree::new, WaveletTree::get, WaveletTree::rank, WaveletTree::select
wt_concrete!(c03_concrete_zeros, u32, [0, 0, 0], 3, 1, 10);
// @h props=C03 tier=thorough family=M mem=5 timeout=1800 stubs=ModelBRS,utils::stable_partition_of_2->fixed_array_reference(c17) role=wt.concrete.holes
// @bound concrete [6,2,6] (max 6, holes), queries symbolic
// @funcs WaveletTree::new, WaveletTree::get, WaveletTree::rank, WaveletTree::select
wt_concrete!(c03_concrete_holes, u64, [6, 2, 6], 3, 3, 10);

// @h props=C03,C04 tier=quick family=E mem=5 timeout=1200 stubs=ModelBRS role=wt.empty
// @bound empty WT (new on an empty slice) and Default WT over the model; empty and Default HWT-typed trees: every query, all arguments: None, no panic
// @funcs WaveletTree::new, WaveletTree::default, WaveletTree::get, WaveletTree::rank, WaveletTree::select, WaveletTree::len
#[kani::proof]
#[kani::unwind(8)]
fn c03_empty_model() {
    let c: u8 = kani::any();
    let i: usize = kani::any();
    let mut e: [u8; 0] = [];
    let t1 = Tree::<u8>::new(&mut e[..]);
    let t2 = Tree::<u8>::default();
    for t in [&t1, &t2] {
        assert!(t.len() == 0 && t.is_empty());
        assert!(t.get(i).is_none());
        let r = t.rank(c, i);
        assert!(r.is_none() || r == Some(0));
        assert!(t.select(c, i).is_none());
    }
    kani::cover!(c == 0 && i == 0, "smallest arguments");
    core::mem::forget(t1);
    core::mem::forget(t2);
}

// @h props=C03 tier=quick family=M mem=5 timeout=900 expect=fail stubs=ModelBRS role=wt.twin
// @bound deliberately false twin: claims get(0) is always the type maximum
// @funcs WaveletTree::new, WaveletTree::get
#[kani::proof]
#[kani::unwind(10)]
#[kani::stub(crate::utils::stable_partition_of_2, part2_stub)]
fn c03_false_twin() {
    let s = any_seq!(u8, 3, 2);
    let mut w = s;
    let t = Tree::<u8>::new(&mut w[..]);
    assert!(t.get(0) == Some(255));
    core::mem::forget(t);
}

// ------------------------------------------------------------------------------------------ C19

// @h props=C19,C03:t tier=quick family=M mem=18 timeout=2400 stubs=ModelBRS,utils::stable_partition_of_2->fixed_array_reference(c17) role=wt.paths.u8
// @bound WaveletTree<u8, ModelBRS, false>: length 3 (s[last] = 255): new and From<Vec> give equal values (collect and Clone: c19_wt_paths2; inequality: c19_wt_widths on concrete pairs, symbolic in the thorough tier)
// @funcs WaveletTree::new, WaveletTree::from<Vec>, WaveletTree::eq
#[kani::proof]
#[kani::unwind(66)] // derived == on Vec<usize> is a memcmp over 8 levels x 8 bytes
#[kani::stub(crate::utils::stable_partition_of_2, part2_stub)]
fn c19_wt_paths_u8_n3() {
    let s = any_seq!(u8, 3, 2);
    let mut w = s;
    let t1 = Tree::<u8>::new(&mut w[..]);
    let t2 = Tree::<u8>::from(s.to_vec());
    assert!(t1 == t2);
    kani::cover!(s[0] != s[1], "distinct symbols");
    core::mem::forget(t1);
    core::mem::forget(t2);
}

// @h props=C19:t tier=thorough family=M optional=yes mem=40 timeout=3600 stubs=ModelBRS,utils::stable_partition_of_2->fixed_array_reference(c17) role=wt.paths.neq
// @bound WaveletTree<u8, ModelBRS, false>: length 3: a sequence differing in one symbolic position gives an unequal value (quick tier: concrete pairs in c19_wt_widths; this one exceeded 21 GB)
// @funcs WaveletTree::new, WaveletTree::eq
#[kani::proof]
#[kani::unwind(66)]
#[kani::stub(crate::utils::stable_partition_of_2, part2_stub)]
fn c19_wt_paths_neq_u8_n3() {
    let s = any_seq!(u8, 3, 2);
    let mut w = s;
    let t1 = Tree::<u8>::new(&mut w[..]);
    let p: usize = kani::any();
    kani::assume(p < 2);
    let v: u8 = kani::any();
    kani::assume(v != s[p]);
    let mut s2 = s;
    s2[p] = v;
    let t4 = Tree::<u8>::new(&mut s2[..]);
    assert!(t4 != t1);
    kani::cover!(p == 1, "difference in the middle");
    core::mem::forget(t1);
    core::mem::forget(t4);
}

// @h props=C19 tier=quick family=M mem=18 timeout=2400 stubs=Model,stable_partition->fixed_array_reference(c17) role=wt.paths2.u8
// @bound length 3 (s[2] = 255): collect gives the same value as new, Clone is equal
// @funcs from_iter, clone, eq
#[kani::proof]
#[kani::unwind(66)]
#[kani::stub(crate::utils::stable_partition_of_2, part2_stub)]
fn c19_wt_paths2_u8_n3() {
    let s = any_seq!(u8, 3, 2);
    let mut w = s;
    let t1 = Tree::<u8>::new(&mut w[..]);
    let t3: Tree<u8> = s.iter().copied().collect();
    assert!(t1 == t3);
    let tc = t1.clone();
    assert!(tc == t1);
    kani::cover!(s[0] != s[1], "distinct symbols");
    core::mem::forget(t1);
    core::mem::forget(t3);
    core::mem::forget(tc);
}

// @h props=C19:t tier=thorough family=M mem=18 timeout=2400 stubs=ModelBRS,utils::stable_partition_of_2->fixed_array_reference(c17) role=wt.widths
// @bound the same concrete numbers [1,0,2,4,5,3] carried as u8, u32 and u64 in the binary tree: get / rank / select agree for symbolic arguments
// @funcs WaveletTree::new, WaveletTree::get, WaveletTree::rank, WaveletTree::select
#[kani::proof]
#[kani::unwind(26)]
#[kani::stub(crate::utils::stable_partition_of_2, part2_stub)]
fn c19_wt_widths() {
    let mut a: [u8; 6] = [1, 0, 2, 4, 5, 3];
    let mut b: [u32; 6] = [1, 0, 2, 4, 5, 3];
    let mut c: [u64; 6] = [1, 0, 2, 4, 5, 3];
    let ta = Tree::<u8>::new(&mut a[..]);
    let tb = Tree::<u32>::new(&mut b[..]);
    let tc = Tree::<u64>::new(&mut c[..]);
    assert!(ta.len() == tb.len() && tb.len() == tc.len());
    assert!(ta.n_levels() == tb.n_levels() && tb.n_levels() == tc.n_levels());
    let sym: u8 = kani::any();
    let i: usize = kani::any();
    assert!(ta.get(i).map(|x| x as u64) == tb.get(i).map(|x| x as u64));
    assert!(tb.get(i).map(|x| x as u64) == tc.get(i));
    assert!(ta.rank(sym, i) == tb.rank(sym as u32, i));
    assert!(tb.rank(sym as u32, i) == tc.rank(sym as u64, i));
    assert!(ta.select(sym, i) == tb.select(sym as u32, i));
    assert!(tb.select(sym as u32, i) == tc.select(sym as u64, i));
    let mut d1: [u8; 3] = [1, 2, 3];
    let mut d2: [u8; 3] = [4, 8, 12];
    let td1 = Tree::<u8>::new(&mut d1[..]);
    let td2 = Tree::<u8>::new(&mut d2[..]);
    assert!(td1 != td2);
    core::mem::forget(td1);
    core::mem::forget(td2);
    kani::cover!(ta.select(sym, i).is_some(), "an existing occurrence");
    core::mem::forget(ta);
    core::mem::forget(tb);
    core::mem::forget(tc);
}
