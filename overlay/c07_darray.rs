//! C07 — DArray, decided through the layout invariant that `select`'s index arithmetic presupposes:
//!  (L) `flush_block` appends exactly one block entry and ceil(len/32) sub-block entries per group,
//!      dense entries relative to the first position, sparse groups spelled out in overflow_positions;
//!  (Q) `select` on inventories with that layout returns the right position (index arithmetic, word scan,
//!      negated words for select0), on symbolic bit contents;
//!  (N) `Inventories::new` / the public constructors on small concrete vectors, symbolic k.
//! Child module of `darray`.
use super::*;
use crate::bitvector::verif_bv_common::*;

fn copy_elemwise<T: Copy>(dst: &mut [T], src: &[T]) {
    assert!(dst.len() == src.len());
    let mut i = 0;
    while i < src.len() {
        dst[i] = src[i];
        i += 1;
    }
}

// ---------------------------------------------------------------------------------------------- (L)

macro_rules! flush_law {
    ($name:ident, $len:expr, $unw:expr, $maxstride:expr) => {
        #[kani::proof]
        #[kani::unwind($unw)]
        fn $name() {
            const LEN: usize = $len;
            let base: usize = kani::any();
            let stride: usize = kani::any();
            kani::assume(base <= 100_000 && stride >= 1 && stride <= $maxstride);
            let mut pos = [0usize; LEN];
            let mut j = 0;
            let mut p = base;
            while j < LEN {
                pos[j] = p;
                p += stride;
                j += 1;
            }
            // inventories already hold one earlier sparse group of 2 positions and one earlier dense group
            let mut block_inventory: Vec<i64> = vec![-1, 7];
            let mut subblock_inventory: Vec<u16> = vec![u16::MAX, 0];
            let mut overflow_positions: Vec<usize> = vec![1, 70_000];
            Inventories::<true>::flush_block(&pos, &mut block_inventory, &mut subblock_inventory, &mut overflow_positions);
            let nsub = (LEN + SUBBLOCK_SIZE - 1) / SUBBLOCK_SIZE;
            let span = pos[LEN - 1] - pos[0];
            // exactly one block entry and ceil(len/32) sub-block entries, whatever the kind of the group:
            // select() indexes ONE sub-block array shared by all groups with i / 32
            assert!(block_inventory.len() == 3);
            assert!(subblock_inventory.len() == 2 + nsub);
            assert!(block_inventory[0] == -1 && block_inventory[1] == 7 && subblock_inventory[1] == 0);
            let q: usize = kani::any();
            kani::assume(q < nsub);
            let t: usize = kani::any();
            kani::assume(t < LEN);
            kani::cover!(LEN == 1 || (span < MAX_IN_BLOCK_DISTACE && span + 2 * (LEN - 1) >= MAX_IN_BLOCK_DISTACE), "dense span next to the threshold");
            kani::cover!(LEN == 1 || span == MAX_IN_BLOCK_DISTACE, "sparse span exactly at the threshold");
            if span < MAX_IN_BLOCK_DISTACE {
                // dense: first position, 16-bit distances of every 32nd position
                assert!(block_inventory[2] == pos[0] as i64);
                assert!(subblock_inventory[2 + q] as usize == pos[32 * q] - pos[0]);
                assert!(overflow_positions.len() == 2);
            } else {
                // sparse: negative pointer to LEN explicit positions
                assert!(block_inventory[2] == -3);
                assert!(overflow_positions.len() == 2 + LEN);
                assert!(overflow_positions[2 + t] == pos[t]);
                assert!(overflow_positions[0] == 1 && overflow_positions[1] == 70_000);
            }
            core::mem::forget(block_inventory);
            core::mem::forget(subblock_inventory);
            core::mem::forget(overflow_positions);
        }
    };
}
// @h props=C07,C04:t tier=quick family=S mem=5 timeout=2400 role=darray.flush_block
// @bound flush_block on a group of 65 positions base + j*stride, base <= 100000 and stride 1..=1100 symbolic (dense, exactly the threshold and sparse all reachable: 64*1024 = 65536), appended to non-empty inventories
// @funcs Inventories::flush_block
flush_law!(c07_flush_len65, 65, 70, 1100);
// @h props=C07 tier=quick family=S mem=5 timeout=2400 role=darray.flush_block
// @bound flush_block on a group of 33 positions, stride 1..=2100 symbolic (threshold at stride 2048)
// @funcs Inventories::flush_block
flush_law!(c07_flush_len33, 33, 40, 2100);
// @h props=C07 tier=quick family=S mem=5 timeout=2400 role=darray.flush_block
// @bound flush_block on a group of 1 position (always dense)
// @funcs Inventories::flush_block
flush_law!(c07_flush_len1, 1, 6, 2100);
// @h props=C07 tier=thorough family=S mem=5 timeout=3600 role=darray.flush_block
// @bound flush_block on a full group of 1024 positions, stride 1..=70 symbolic (threshold at 64/65): a full group contributes exactly 32 sub-block entries
// @funcs Inventories::flush_block
flush_law!(c07_flush_len1024, 1024, 1030, 70);

// ---------------------------------------------------------------------------------------------- (Q)

/// ones (BIT) / zeros (!BIT) among bits [from, to) of the 1024-bit state
fn count_range<const BIT: bool>(words: &[u64; W], from: usize, to: usize) -> usize {
    let mut c = 0usize;
    let mut wi = 0;
    while wi < W {
        let lo = 64 * wi;
        let hi = lo + 64;
        if hi > from && lo < to {
            let mut m = u64::MAX;
            if from > lo {
                m &= u64::MAX << (from - lo);
            }
            if to < hi {
                m &= (1u64 << (to - lo)) - 1;
            }
            let w = if BIT { words[wi] } else { !words[wi] };
            c += (w & m).count_ones() as usize;
        }
        wi += 1;
    }
    c
}

/// One 512-bit line with symbolic contents and length 1..=512 (8-word loops: the scan loop of `select`
/// has a symbolic trip count and is unrolled to the unwind bound, so the bound is kept at 10).
fn any_line_state() -> ([u64; W], usize) {
    let n: usize = kani::any();
    kani::assume(n >= 1 && n <= 512);
    let raw: [u64; 8] = kani::any();
    let mut words = [0u64; W];
    let mut wi = 0;
    while wi < 8 {
        let lo = 64 * wi;
        words[wi] = if lo >= n {
            0
        } else if n - lo >= 64 {
            raw[wi]
        } else {
            raw[wi] & ((1u64 << (n - lo)) - 1)
        };
        wi += 1;
    }
    (words, n)
}
fn line_bv(words: &[u64; W], n: usize) -> BitVector {
    mk_imm_line(words, n)
}
/// occurrences of BIT among bits [from, to) of the first line
fn count_range8<const BIT: bool>(words: &[u64; W], from: usize, to: usize) -> usize {
    let mut c = 0usize;
    let mut wi = 0;
    while wi < 8 {
        let lo = 64 * wi;
        let hi = lo + 64;
        if hi > from && lo < to {
            let mut m = u64::MAX;
            if from > lo {
                m &= u64::MAX << (from - lo);
            }
            if to < hi {
                m &= (1u64 << (to - lo)) - 1;
            }
            let w = if BIT { words[wi] } else { !words[wi] };
            c += (w & m).count_ones() as usize;
        }
        wi += 1;
    }
    c
}

macro_rules! select_stage {
    ($name:ident, $bit:expr, $s0:expr, $aligned:expr) => {
        #[kani::proof]
        #[kani::unwind(10)]
        #[kani::stub(crate::utils::select_in_word, crate::utils::verif_utils_stubs::select_in_word_contract)]
        fn $name() {
            let (words, n) = any_line_state();
            let bv = line_bv(&words, n);
            // two groups; entries arbitrary, constrained below only where the query touches them
            let blocks: [i64; 2] = kani::any();
            let subs: [u16; 64] = kani::any();
            let ovf: [usize; 4] = kani::any();
            let n_sets: usize = kani::any();
            kani::assume(n_sets <= 2048);
            let inv = Inventories::<$bit> {
                n_sets,
                block_inventory: blocks.to_vec().into_boxed_slice(),
                subblock_inventory: subs.to_vec().into_boxed_slice(),
                overflow_positions: ovf.to_vec().into_boxed_slice(),
            };
            let da = DArray::<$s0> { bv, ..Default::default() };
            let i: usize = kani::any();
            // layout preconditions of the entries this query touches - stated BEFORE the call
            let valid = i < n_sets;
            let bp = if valid { blocks[i / 1024] } else { 0 };
            let sparse = valid && bp < 0;
            let dense = valid && bp >= 0;
            let mut idx = 0usize;
            let mut p0 = 0usize;
            let rem = i % 32;
            if sparse {
                // a sparse group: -bp-1 is the offset of its LEN explicit positions
                kani::assume(bp > i64::MIN);
                idx = (-bp - 1) as usize + (i % 1024);
                kani::assume(idx < 4);
            }
            if dense {
                // a dense group: p0 is the position of occurrence 32*(i/32) (the bit holds there), and the
                // vector holds at least i%32 further occurrences after it
                p0 = bp as usize + subs[i / 32] as usize;
                kani::assume(p0 < n && bit(&words, p0) == $bit);
                if $aligned {
                    kani::assume(p0 % 64 == 0);
                }
                kani::assume(count_range8::<$bit>(&words, p0, n) > rem);
            }
            let r = da.select::<$bit>(i, &inv);
            kani::cover!(i == usize::MAX, "largest k");
            kani::cover!(sparse && i >= 1024, "sparse second group");
            kani::cover!(dense && i >= 1024, "dense second group");
            kani::cover!(dense && rem == 0, "sub-block head");
            kani::cover!($aligned || (dense && rem > 0 && p0 % 64 == 63), "head on the last bit of a word");
            if !valid {
                assert!(r.is_none());
            } else if sparse {
                assert!(r == Some(ovf[idx]));
            } else {
                let p = r.unwrap();
                assert!(p >= p0 && p < n);
                assert!(bit(&words, p) == $bit);
                assert!(count_range8::<$bit>(&words, p0, p) == rem);
                kani::cover!(rem > 0 && (p >> 6) > (p0 >> 6) + 1, "scan crosses more than one word");
            }
            core::mem::forget(da);
            core::mem::forget(inv);
        }
    };
}
// @h props=C07,C04:t,C10:t tier=thorough family=S mem=6 timeout=3600 stubs=utils::select_in_word->contract(c17_select_in_word_law) role=darray.select1.stage.aligned
// @bound select on a 1..=512-bit vector with symbolic contents and assembled inventories of two groups (each dense or sparse) whose touched entries satisfy the layout law; sub-block heads restricted to word-aligned positions (the unrestricted instance needs 1100-1300 s: thorough); every k of the machine range
// @funcs DArray::select, BitVector::get_word
select_stage!(c07_select1_stage_aligned, true, false, true);
// @h props=C07,C04:t,C10:t tier=thorough family=S optional=yes mem=6 timeout=3600 stubs=utils::select_in_word->contract(c17_select_in_word_law) role=darray.select0.stage.aligned
// @bound same for zeros (negated words, padding after the last bit never reported), word-aligned sub-block heads
// @funcs DArray::select, BitVector::get_word
select_stage!(c07_select0_stage_aligned, false, true, true);
// @h props=C07,C10:t tier=thorough family=S optional=yes mem=8 timeout=3600 stubs=utils::select_in_word->contract(c17_select_in_word_law) role=darray.select1.stage
// @bound select1 stage with the sub-block head at any position (1100-1300 s)
// @funcs DArray::select, BitVector::get_word
select_stage!(c07_select1_stage, true, false, false);
// @h props=C07,C10:t tier=thorough family=S optional=yes mem=8 timeout=3600 stubs=utils::select_in_word->contract(c17_select_in_word_law) role=darray.select0.stage
// @bound select0 stage with the sub-block head at any position (did not finish in 1500 s)
// @funcs DArray::select, BitVector::get_word
select_stage!(c07_select0_stage, false, true, false);

// ---------------------------------------------------------------------------------------------- (N)

macro_rules! darray_concrete {
    ($name:ident, $s0:expr, $pos:expr, $m:expr, $nbits:expr, $unw:expr) => {
        #[kani::proof]
        #[kani::unwind($unw)]
        #[kani::stub(crate::utils::select_in_word, crate::utils::verif_utils_stubs::select_in_word_contract)]
        fn $name() {
            let pos: [usize; $m] = $pos;
            // bit vector assembled from the positions (its construction through BitVectorMut is C08's business)
            let mut words = [0u64; W];
            let mut t = 0;
            while t < $m {
                words[pos[t] >> 6] |= 1u64 << (pos[t] & 63);
                t += 1;
            }
            const NL: usize = ($nbits + 511) / 512;
            let da: DArray<$s0> = DArray::new(if NL == 0 { mk_imm::<0>(&words, 0) } else if NL == 1 { mk_imm::<1>(&words, $nbits) } else { mk_imm::<2>(&words, $nbits) });
            assert!(da.len() == $nbits && da.count_ones() == $m && da.count_zeros() == $nbits - $m);
            assert!(da.is_empty() == ($nbits == 0));
            let k: usize = kani::any();
            let r = da.select1(k);
            if k < $m {
                assert!(r == Some(pos[k]));
                assert!(unsafe { da.select1_unchecked(k) } == pos[k]);
            } else {
                assert!(r.is_none());
            }
            let j: usize = kani::any();
            let g = da.get(j);
            let mut is_one = false;
            let mut t = 0;
            while t < $m {
                if pos[t] == j {
                    is_one = true;
                }
                t += 1;
            }
            if j < $nbits {
                assert!(g == Some(is_one));
            } else {
                assert!(g.is_none());
            }
            if $s0 {
                let z = da.select0(k);
                if k < $nbits - $m {
                    let p = z.unwrap();
                    // p is a zero and exactly k zeros precede it: p - (#ones below p) == k
                    let mut ones_below = 0;
                    let mut t = 0;
                    while t < $m {
                        assert!(pos[t] != p);
                        if pos[t] < p {
                            ones_below += 1;
                        }
                        t += 1;
                    }
                    assert!(p < $nbits && p - ones_below == k);
                } else {
                    assert!(z.is_none());
                }
            }
            kani::cover!($m == 0 || k.wrapping_add(1) == $m, "last one selected");
            kani::cover!(k == usize::MAX, "largest k");
            core::mem::forget(da);
        }
    };
}
// @h props=C07:t,C04:t,C19:t tier=thorough family=T optional=yes mem=28 timeout=3600 stubs=utils::select_in_word->contract role=darray.concrete12
// @bound DArray<true> collected from 11 positions derived from the repo's own test (0..=190), bit vector assembled, DArray::new real, k and get index symbolic over the machine range: select1, select0, get, len, counts
// @funcs DArray::new, Inventories::new, Inventories::flush_block, DArray::select1, DArray::select0, DArray::get, BitVector::from_iter, BitVector::ones, BitVector::zeros
darray_concrete!(c07_concrete12_s0, true, [0, 12, 33, 42, 55, 61, 62, 63, 128, 129, 190], 11, 191, 200);
// @h props=C07,C04 tier=quick family=T mem=5 timeout=1800 stubs=utils::select_in_word->contract role=darray.concrete40
// @bound DArray<false> from 40 concrete positions 5*j+ (j mod 3) (more than one sub-block), symbolic k
// @funcs DArray::new, Inventories::new, Inventories::flush_block, DArray::select1
darray_concrete!(c07_concrete40, false, [0, 6, 12, 15, 21, 27, 30, 36, 42, 45, 51, 57, 60, 66, 72, 75, 81, 87, 90, 96, 102, 105, 111, 117, 120, 126, 132, 135, 141, 147, 150, 156, 162, 165, 171, 177, 180, 186, 192, 195], 40, 196, 45);
// @h props=C07,C04 tier=quick family=E mem=5 timeout=1200 role=darray.empty
// @bound empty DArray<true> (no positions): every k and index; Default
// @funcs DArray::new, DArray::default, DArray::select1, DArray::select0, DArray::get
darray_concrete!(c07_empty_s0, true, [], 0, 0, 18);

// @h props=C07 tier=quick family=S mem=6 timeout=900 expect=fail role=darray.twin
// @bound deliberately false twin: claims every group is dense
// @funcs Inventories::flush_block
#[kani::proof]
#[kani::unwind(40)]
fn c07_false_twin() {
    let stride: usize = kani::any();
    kani::assume(stride >= 1 && stride <= 2100);
    let mut pos = [0usize; 33];
    let mut j = 0;
    while j < 33 {
        pos[j] = j * stride;
        j += 1;
    }
    let mut b: Vec<i64> = Vec::new();
    let mut s: Vec<u16> = Vec::new();
    let mut o: Vec<usize> = Vec::new();
    Inventories::<true>::flush_block(&pos, &mut b, &mut s, &mut o);
    assert!(b[0] >= 0);
}

// ------------------------------------------------------------------------------------------ C18

// @h props=C18:t,C07:t tier=thorough family=T optional=yes mem=28 timeout=1800 stubs=utils::select_in_word->contract role=purity.darray
// @bound DArray<true> over 11 concrete positions: select1/select0/get with one symbolic index, interleaved and repeated: same answers, value equal to its snapshot afterwards
// @funcs DArray::select1, DArray::select0, DArray::get, DArray::eq, DArray::clone
#[kani::proof]
#[kani::unwind(200)]
#[kani::stub(crate::utils::select_in_word, crate::utils::verif_utils_stubs::select_in_word_contract)]
fn c18_purity_darray() {
    let pos: [usize; 11] = [0, 12, 33, 42, 55, 61, 62, 63, 128, 129, 190];
    let mut words = [0u64; W];
    let mut t = 0;
    while t < 11 {
        words[pos[t] >> 6] |= 1u64 << (pos[t] & 63);
        t += 1;
    }
    let da: DArray<true> = DArray::new(mk_imm::<1>(&words, 191));
    let snap = da.clone();
    let k: usize = kani::any();
    let a1 = da.select1(k);
    let b1 = da.select0(k);
    let c1 = da.get(k);
    // the same queries again, in another order
    let b2 = da.select0(k);
    let a2 = da.select1(k);
    let b3 = da.select0(k);
    assert!(a1 == a2 && b1 == b2 && b2 == b3 && da.get(k) == c1);
    assert!(da == snap);
    kani::cover!(a1.is_some() && b1.is_some(), "both answer");
    core::mem::forget(da);
    core::mem::forget(snap);
}

// ------------------------------------------------------------------ assembled concrete DArray<true>, symbolic k

/// positions of ones (11) and of zeros (180) of the 191-bit test vector, computed at compile time
const ONES: [usize; 11] = [0, 12, 33, 42, 55, 61, 62, 63, 128, 129, 190];
const fn is_one(p: usize) -> bool {
    let mut t = 0;
    while t < 11 {
        if ONES[t] == p {
            return true;
        }
        t += 1;
    }
    false
}
const fn zeros_of() -> [usize; 180] {
    let mut z = [0usize; 180];
    let mut k = 0;
    let mut p = 0;
    while p < 191 {
        if !is_one(p) {
            z[k] = p;
            k += 1;
        }
        p += 1;
    }
    z
}
const ZEROS: [usize; 180] = zeros_of();
const fn words_of() -> [u64; W] {
    let mut w = [0u64; W];
    let mut t = 0;
    while t < 11 {
        w[ONES[t] >> 6] |= 1u64 << (ONES[t] & 63);
        t += 1;
    }
    w
}
const WORDS191: [u64; W] = words_of();
const fn zero_subs() -> [u16; 6] {
    let mut s = [0u16; 6];
    let mut q = 0;
    while q < 6 {
        s[q] = (ZEROS[32 * q] - ZEROS[0]) as u16;
        q += 1;
    }
    s
}

fn assembled_191() -> DArray<true> {
    // inventories written from the layout law (L) for one dense group of ones and one dense group of zeros
    let ones = Inventories::<true> {
        n_sets: 11,
        block_inventory: vec![ONES[0] as i64].into_boxed_slice(),
        subblock_inventory: vec![0u16].into_boxed_slice(),
        overflow_positions: Vec::new().into_boxed_slice(),
    };
    let zeros = Inventories::<false> {
        n_sets: 180,
        block_inventory: vec![ZEROS[0] as i64].into_boxed_slice(),
        subblock_inventory: zero_subs().to_vec().into_boxed_slice(),
        overflow_positions: Vec::new().into_boxed_slice(),
    };
    DArray::<true> { bv: mk_imm_line(&WORDS191, 191), ones_inventories: ones, zeroes_inventories: Some(zeros), ..Default::default() }
}

// @h props=C07,C04,C10,C18 tier=quick family=A mem=8 timeout=1800 stubs=utils::select_in_word->contract role=darray.assembled191
// @bound DArray<true> assembled over a concrete 191-bit vector (11 ones, 180 zeros) with inventories written from the layout law: select1 / select0 / get for every k of the machine range, interleaved and repeated (same answers: no hidden state), unchecked forms on valid k
// @funcs DArray::select1, DArray::select0, DArray::select1_unchecked, DArray::select0_unchecked, DArray::select, DArray::get, DArray::len, DArray::count_ones, DArray::count_zeros
#[kani::proof]
#[kani::unwind(12)]
#[kani::stub(crate::utils::select_in_word, crate::utils::verif_utils_stubs::select_in_word_contract)]
fn c07_assembled_191() {
    let da = assembled_191();
    assert!(da.len() == 191 && da.count_ones() == 11 && da.count_zeros() == 180 && !da.is_empty());
    let k: usize = kani::any();
    let a1 = da.select1(k);
    let b1 = da.select0(k);
    assert!(a1 == if k < 11 { Some(ONES[k % 11]) } else { None });
    assert!(b1 == if k < 180 { Some(ZEROS[k % 180]) } else { None });
    // again, in the other order: a query leaves no trace that a later query could observe (C18)
    let b2 = da.select0(k);
    let a2 = da.select1(k);
    assert!(a2 == a1 && b2 == b1);
    if k < 11 {
        assert!(unsafe { da.select1_unchecked(k) } == ONES[k % 11]);
    }
    if k < 180 {
        assert!(unsafe { da.select0_unchecked(k) } == ZEROS[k % 180]);
    }
    let g = da.get(k);
    assert!(g == if k < 191 { Some((WORDS191[(k % 191) >> 6] >> (k & 63)) & 1 == 1) } else { None });
    kani::cover!(k == 179, "last zero");
    kani::cover!(k == 10, "last one");
    kani::cover!(k == usize::MAX, "largest k");
    core::mem::forget(da);
}

mod runs320 {
    //! 320 bits: zeros 0..10, ones 10..200 (two whole words of ones inside), zeros 200..320:
    //! select0's scan has to cross all-ones words, select1's scan all-zero territory after the run.
    use super::*;
    pub(super) const N: usize = 320;
    pub(super) const N1: usize = 190;
    pub(super) const N0: usize = 130;
    pub(super) const fn is_one(p: usize) -> bool {
        p >= 10 && p < 200
    }
    pub(super) const fn positions<const K: usize>(want: bool) -> [usize; K] {
        let mut z = [0usize; K];
        let mut k = 0;
        let mut p = 0;
        while p < N {
            if is_one(p) == want {
                z[k] = p;
                k += 1;
            }
            p += 1;
        }
        z
    }
    pub(super) const ONES: [usize; N1] = positions::<N1>(true);
    pub(super) const ZEROS: [usize; N0] = positions::<N0>(false);
    pub(super) const fn words() -> [u64; W] {
        let mut w = [0u64; W];
        let mut p = 0;
        while p < N {
            if is_one(p) {
                w[p >> 6] |= 1u64 << (p & 63);
            }
            p += 1;
        }
        w
    }
    pub(super) const WORDS: [u64; W] = words();
    pub(super) const fn subs<const K: usize, const Q: usize>(pos: &[usize; K]) -> [u16; Q] {
        let mut s = [0u16; Q];
        let mut q = 0;
        while q < Q {
            s[q] = (pos[32 * q] - pos[0]) as u16;
            q += 1;
        }
        s
    }
}

// @h props=C07,C04,C10,C18 tier=quick family=A mem=8 timeout=1800 stubs=utils::select_in_word->contract role=darray.assembled320
// @bound DArray<true> assembled over the concrete 320-bit vector 0^10 1^190 0^120 (runs covering whole words) with inventories written from the layout law: select1 / select0 for every k of the machine range, interleaved and repeated
// @funcs DArray::select1, DArray::select0, DArray::select, BitVector::get_word
#[kani::proof]
#[kani::unwind(12)]
#[kani::stub(crate::utils::select_in_word, crate::utils::verif_utils_stubs::select_in_word_contract)]
fn c07_assembled_runs320() {
    use runs320::*;
    let ones = Inventories::<true> {
        n_sets: N1,
        block_inventory: vec![ONES[0] as i64].into_boxed_slice(),
        subblock_inventory: subs::<N1, 6>(&ONES).to_vec().into_boxed_slice(),
        overflow_positions: Vec::new().into_boxed_slice(),
    };
    let zeros = Inventories::<false> {
        n_sets: N0,
        block_inventory: vec![ZEROS[0] as i64].into_boxed_slice(),
        subblock_inventory: subs::<N0, 5>(&ZEROS).to_vec().into_boxed_slice(),
        overflow_positions: Vec::new().into_boxed_slice(),
    };
    let da = DArray::<true> { bv: mk_imm_line(&WORDS, N), ones_inventories: ones, zeroes_inventories: Some(zeros), ..Default::default() };
    let k: usize = kani::any();
    let a1 = da.select1(k);
    let b1 = da.select0(k);
    assert!(a1 == if k < N1 { Some(ONES[k % N1]) } else { None });
    assert!(b1 == if k < N0 { Some(ZEROS[k % N0]) } else { None });
    assert!(da.select0(k) == b1 && da.select1(k) == a1);
    kani::cover!(k == 10, "first zero after the run of ones");
    kani::cover!(k == N1 - 1, "last one");
    core::mem::forget(da);
}
