//! C09 — stage contract of the hard-wired PrefetchSupport (the tree harnesses replace it by a stub that
//! is justified by, and only by, these harnesses): approx_rank_unchecked(c, i) never panics for i <= n,
//! is a multiple of the sample rate and never exceeds rank(c, i + 1).
//! Child module of `quadwt::prefetch_support`.
use super::*;
use crate::AccessQuad;

// @h props=C09 tier=thorough family=T optional=yes mem=45 timeout=3600 role=prefetchsupport.small
// @bound PrefetchSupport::new(qv, 11) on 3 symbolic symbols; approx_rank_unchecked for every symbol and every position 0..=3: no panic (the inner rank1 is Some), result 0 (no multiple of 2048 reached)
// @funcs PrefetchSupport::new, PrefetchSupport::approx_rank_unchecked, RSNarrow::new, RSNarrow::rank1
#[kani::proof]
#[kani::unwind(10)]
fn c09_pfs_small() {
    let raw: [u8; 3] = kani::any();
    let qv: QVector = raw.iter().copied().collect();
    let pfs = PrefetchSupport::new(&qv, 11);
    let c: u8 = kani::any();
    kani::assume(c < 4);
    let i: usize = kani::any();
    kani::assume(i <= 3);
    let r = unsafe { pfs.approx_rank_unchecked(c, i) };
    assert!(r == 0);
    kani::cover!(i == 3, "position == length");
    core::mem::forget(pfs);
    core::mem::forget(qv);
}

// @h props=C09 tier=thorough family=T optional=yes mem=30 timeout=3600 role=prefetchsupport.n2049
// @bound PrefetchSupport::new(qv, 11) on the concrete sequence of 2049 symbols `1`; approx_rank_unchecked for every symbol and position 0..=2049: multiple of 2048, never above rank(c, i+1)
// @funcs PrefetchSupport::new, PrefetchSupport::approx_rank_unchecked, RSNarrow::new, RSNarrow::rank1
#[kani::proof]
#[kani::unwind(2052)]
fn c09_pfs_n2049() {
    let qv: QVector = (0..2049usize).map(|_| 1u8).collect();
    let pfs = PrefetchSupport::new(&qv, 11);
    let c: u8 = kani::any();
    kani::assume(c < 4);
    let i: usize = kani::any();
    kani::assume(i <= 2049);
    let r = unsafe { pfs.approx_rank_unchecked(c, i) };
    assert!(r % 2048 == 0);
    let true_rank_next = if c == 1 { if i + 1 <= 2049 { i + 1 } else { 2049 } } else { 0 };
    assert!(r <= true_rank_next);
    kani::cover!(r == 2048, "one sampling period counted");
    core::mem::forget(pfs);
    core::mem::forget(qv);
}

/// occurrences of c among the first `upto` symbols
fn occ(raw: &[u8; 6], n: usize, c: u8, upto: usize) -> usize {
    let mut k = 0;
    let mut j = 0;
    while j < 6 {
        if j < n && j < upto && (raw[j] & 3) == c {
            k += 1;
        }
        j += 1;
    }
    k
}

macro_rules! pfs_small_rate {
    ($name:ident, $n:expr, $shift:expr) => {
        #[kani::proof]
        #[kani::unwind(10)]
        fn $name() {
            // the sampling logic is generic in the rate: with rate 2^shift = 2 or 4 every block boundary
            // (n a multiple of the rate, n-1 a multiple, ...) is reached with a handful of symbols
            let raw: [u8; 6] = kani::any();
            let n: usize = $n;
            let qv: QVector = raw[..n].iter().copied().collect();
            let pfs = PrefetchSupport::new(&qv, $shift);
            let c: u8 = kani::any();
            kani::assume(c < 4);
            let i: usize = kani::any();
            kani::assume(i <= n);
            let r = unsafe { pfs.approx_rank_unchecked(c, i) }; // must not panic: the inner rank1 is Some
            assert!(r % (1usize << $shift) == 0);
            assert!(r <= occ(&raw, n, c, i + 1));
            kani::cover!(r > 0, "at least one sampling period counted");
            kani::cover!(i == n, "position == length");
            core::mem::forget(pfs);
            core::mem::forget(qv);
        }
    };
}
// @h props=C09 tier=thorough family=T optional=yes mem=45 timeout=3600 role=prefetchsupport.rate2.n4
// @bound PrefetchSupport::new(qv, 1) (sampling period 2) on 4 symbolic symbols (length a multiple of the period): approx_rank_unchecked for every symbol and position 0..=4 never panics, is a multiple of the period and <= rank(c, i+1)
// @funcs PrefetchSupport::new, PrefetchSupport::approx_rank_unchecked, RSNarrow::new, RSNarrow::rank1
pfs_small_rate!(c09_pfs_rate2_n4, 4, 1);
// @h props=C09 tier=thorough family=T optional=yes mem=30 timeout=3600 role=prefetchsupport.rate2.n5
// @bound PrefetchSupport::new(qv, 1) on 5 symbolic symbols (length-1 a multiple of the period)
// @funcs PrefetchSupport::new, PrefetchSupport::approx_rank_unchecked
pfs_small_rate!(c09_pfs_rate2_n5, 5, 1);
// @h props=C09 tier=thorough family=T optional=yes mem=30 timeout=3600 role=prefetchsupport.rate4.n4
// @bound PrefetchSupport::new(qv, 2) (sampling period 4) on 4 symbolic symbols
// @funcs PrefetchSupport::new, PrefetchSupport::approx_rank_unchecked
pfs_small_rate!(c09_pfs_rate4_n4, 4, 2);

macro_rules! pfs_concrete {
    ($name:ident, $n:expr, $shift:expr, $sym:expr) => {
        #[kani::proof]
        #[kani::unwind(10)]
        fn $name() {
            // concrete contents (all symbols equal to $sym), symbolic query
            let raw: [u8; $n] = [$sym; $n];
            let qv: QVector = raw.iter().copied().collect();
            let pfs = PrefetchSupport::new(&qv, $shift);
            let c: u8 = kani::any();
            kani::assume(c < 4);
            let i: usize = kani::any();
            kani::assume(i <= $n);
            let r = unsafe { pfs.approx_rank_unchecked(c, i) };
            assert!(r % (1usize << $shift) == 0);
            let next = if c == $sym { if i + 1 <= $n { i + 1 } else { $n } } else { 0 };
            assert!(r <= next);
            kani::cover!(r > 0, "at least one sampling period counted");
            kani::cover!(i == $n, "position == length");
            core::mem::forget(pfs);
            core::mem::forget(qv);
        }
    };
}
// @h props=C09 tier=thorough family=T optional=yes mem=30 timeout=3600 role=prefetchsupport.concrete.rate2.n4
// @bound PrefetchSupport::new(qv, 1) (sampling period 2) on the concrete vector [1,1,1,1] (length a multiple of the period); approx_rank_unchecked for every symbol and every position 0..=4 (symbolic): no panic, multiple of the period, <= rank(c, i+1)
// @funcs PrefetchSupport::new, PrefetchSupport::approx_rank_unchecked, RSNarrow::new, RSNarrow::rank1
pfs_concrete!(c09_pfs_concrete_rate2_n4, 4, 1, 1);
// @h props=C09 tier=thorough family=T optional=yes mem=30 timeout=3600 role=prefetchsupport.concrete.rate2.n5
// @bound PrefetchSupport::new(qv, 1) on the concrete vector [2,2,2,2,2] (length-1 a multiple of the period)
// @funcs PrefetchSupport::new, PrefetchSupport::approx_rank_unchecked
pfs_concrete!(c09_pfs_concrete_rate2_n5, 5, 1, 2);
