//! C09 — stage contract of the hard-wired PrefetchSupport (the tree harnesses replace it by a stub that
//! is justified by, and only by, these harnesses): approx_rank_unchecked(c, i) never panics for i <= n,
//! is a multiple of the sample rate and never exceeds rank(c, i + 1).
//! Child module of `quadwt::prefetch_support`.
use super::*;
use crate::AccessQuad;

// @h props=C09,C04:t tier=quick family=T mem=20 timeout=2400 role=prefetchsupport.small
// @bound PrefetchSupport::new(qv, 11) on 3 symbolic symbols; approx_rank_unchecked for every symbol and every position 0..=3: no panic (the inner rank1 is Some), result 0 (no multiple of 2048 reached)
// @funcs PrefetchSupport::new, PrefetchSupport::approx_rank_unchecked, RSNarrow::new, RSNarrow::rank1
#[kani::proof]
#[kani::unwind(10)]
fn c09_pfs_small() {
    let raw: [u8; 3] = kani::any();
    let qv: QVector = raw.iter().copied().collect();
    let pfs = PrefetchSupport::new(&qv, 11);
    let c: u8 = kani::any();
    kani::assume(c < 4);
    let i: usize = kani::any();
    kani::assume(i <= 3);
    let r = unsafe { pfs.approx_rank_unchecked(c, i) };
    assert!(r == 0);
    kani::cover!(i == 3, "position == length");
    core::mem::forget(pfs);
    core::mem::forget(qv);
}

// @h props=C09 tier=thorough family=T optional=yes mem=30 timeout=3600 role=prefetchsupport.n2049
// @bound PrefetchSupport::new(qv, 11) on the concrete sequence of 2049 symbols `1`; approx_rank_unchecked for every symbol and position 0..=2049: multiple of 2048, never above rank(c, i+1)
// @funcs PrefetchSupport::new, PrefetchSupport::approx_rank_unchecked, RSNarrow::new, RSNarrow::rank1
#[kani::proof]
#[kani::unwind(2052)]
fn c09_pfs_n2049() {
    let qv: QVector = (0..2049usize).map(|_| 1u8).collect();
    let pfs = PrefetchSupport::new(&qv, 11);
    let c: u8 = kani::any();
    kani::assume(c < 4);
    let i: usize = kani::any();
    kani::assume(i <= 2049);
    let r = unsafe { pfs.approx_rank_unchecked(c, i) };
    assert!(r % 2048 == 0);
    let true_rank_next = if c == 1 { if i + 1 <= 2049 { i + 1 } else { 2049 } } else { 0 };
    assert!(r <= true_rank_next);
    kani::cover!(r == 2048, "one sampling period counted");
    core::mem::forget(pfs);
    core::mem::forget(qv);
}
