//! C12 (tree part) — `WTIterator` is generic over the indexed structure and only ever calls
//! `get_unchecked`; it is decided here over a contract model of an indexed sequence (whose
//! `get_unchecked` asserts its precondition), from an ARBITRARY reachable iterator state, one call at a
//! time: histories over {next, next_back, len} of any length follow by induction. That every tree's
//! `iter()` / `into_iter()` starts at (0, len) is checked on the model trees in c01 / c03.
//! Child module of the crate root.
use super::*;

#[derive(Clone, Debug, PartialEq)]
struct Seq {
    data: [u16; 5],
    len: usize,
}
impl AccessUnsigned for Seq {
    type Item = u16;
    fn get(&self, i: usize) -> Option<u16> {
        if i < self.len {
            Some(self.data[i])
        } else {
            None
        }
    }
    unsafe fn get_unchecked(&self, i: usize) -> u16 {
        assert!(i < self.len, "WTIterator called get_unchecked out of bounds");
        self.data[i]
    }
}
impl AsRef<Seq> for Seq {
    fn as_ref(&self) -> &Seq {
        self
    }
}

fn any_seq() -> Seq {
    let len: usize = kani::any();
    kani::assume(len <= 5);
    Seq { data: kani::any(), len }
}

macro_rules! step_law {
    ($name:ident, $owned:expr) => {
        #[kani::proof]
        #[kani::unwind(4)]
        fn $name() {
            let s = any_seq();
            let model = s.clone();
            // arbitrary reachable state: 0 <= i <= end <= len
            let i0: usize = kani::any();
            let e0: usize = kani::any();
            kani::assume(i0 <= e0 && e0 <= s.len);
            let back: bool = kani::any();
            macro_rules! body {
                ($it:ident) => {{
                    assert!($it.len() == e0 - i0);
                    let r = if back { $it.next_back() } else { $it.next() };
                    if i0 < e0 {
                        if back {
                            assert!(r == Some(model.data[e0 - 1]));
                            assert!($it.i == i0 && $it.end == e0 - 1);
                        } else {
                            assert!(r == Some(model.data[i0]));
                            assert!($it.i == i0 + 1 && $it.end == e0);
                        }
                        assert!($it.len() == e0 - i0 - 1);
                    } else {
                        // exhausted: None, state unchanged, remaining length 0 - now and on every later call
                        assert!(r.is_none());
                        assert!($it.i == i0 && $it.end == e0);
                        assert!($it.len() == 0);
                        assert!($it.next().is_none() && $it.next_back().is_none());
                        assert!($it.len() == 0);
                    }
                    kani::cover!(i0 < e0 && back && e0 == model.len, "last element from the back");
                    kani::cover!(i0 == e0 && i0 > 0 && i0 < model.len, "front and back met in the middle");
                    kani::cover!(model.len == 0, "empty sequence");
                }};
            }
            if $owned {
                let mut it: WTIterator<u16, Seq, Seq> = WTIterator { i: i0, end: e0, qwt: s, _phantom: PhantomData };
                body!(it);
            } else {
                let mut it: WTIterator<u16, Seq, &Seq> = WTIterator { i: i0, end: e0, qwt: &s, _phantom: PhantomData };
                body!(it);
            }
        }
    };
}
// @h props=C12,C04:t tier=quick family=M mem=4 timeout=900 stubs=Seq(contract_model_of_AccessUnsigned) role=wtiterator.step.borrowed
// @bound WTIterator over a borrowed model sequence of length 0..=5 (symbolic contents and length), arbitrary state 0<=i<=end<=len, one symbolic call next/next_back (+ two calls after exhaustion), len() before and after
// @funcs WTIterator::next, WTIterator::next_back, WTIterator::len
step_law!(c12_wt_iter_step_borrowed, false);
// @h props=C12 tier=quick family=M mem=4 timeout=900 stubs=Seq(contract_model_of_AccessUnsigned) role=wtiterator.step.owned
// @bound the consuming form WTIterator<_, S, S>
// @funcs WTIterator::next, WTIterator::next_back, WTIterator::len
step_law!(c12_wt_iter_step_owned, true);

// @h props=C12 tier=quick family=M mem=4 timeout=900 expect=fail role=wtiterator.twin
// @bound deliberately false twin: claims next_back never yields
// @funcs WTIterator::next_back
#[kani::proof]
#[kani::unwind(4)]
fn c12_wt_iter_false_twin() {
    let s = any_seq();
    let mut it: WTIterator<u16, Seq, &Seq> = WTIterator { i: 0, end: s.len, qwt: &s, _phantom: PhantomData };
    assert!(it.next_back().is_none());
}
