//! C06 — RSNarrow: directory kernel, select stage on assembled directories, `new` establishes the layout,
//! tiny end-to-end laws. Child module of `bitvector::rs_narrow`.
use super::super::verif_bv_common::*;
use super::*;

/// bits z..n are ones, everything else zero - computed at compile time so that set-up needs no unwinding
const fn pattern_words<const NW: usize>(z: usize, n: usize) -> [u64; NW] {
    let mut words = [0u64; NW];
    let mut wi = 0;
    while wi < NW {
        let mut b = 0;
        while b < 64 {
            let p = 64 * wi + b;
            if p >= z && p < n {
                words[wi] |= 1u64 << b;
            }
            b += 1;
        }
        wi += 1;
    }
    words
}

fn assemble(pairs: &[u64], s0: &[usize], s1: &[usize], bv: BitVector) -> RSNarrow {
    RSNarrow {
        bv,
        block_rank_pairs: pairs.to_vec().into_boxed_slice(),
        select_samples: [s0.to_vec().into_boxed_slice(), s1.to_vec().into_boxed_slice()],
    }
}

// @h props=C06,C04:t tier=quick family=K mem=5 timeout=1200 role=rsnarrow.sub_block_rank
// @bound directory of 2 arbitrary (rank, sub-ranks) pairs; every word index 0..16: value = block rank + 9-bit field of the word (0 for the first word; bit 63 of the sub-rank word is never set by `new`)
// @funcs RSNarrow::sub_block_rank, RSNarrow::block_rank, RSNarrow::sub_block_ranks
#[kani::proof]
#[kani::unwind(6)]
fn c06_narrow_sub_block_rank_kernel() {
    let pairs: [u64; 4] = kani::any();
    kani::assume(pairs[1] >> 63 == 0 && pairs[3] >> 63 == 0);
    kani::assume(pairs[0] < (1 << 44) && pairs[2] < (1 << 44));
    let rs = assemble(&pairs, &[0, 1], &[0, 1], BitVector::default());
    let sb: usize = kani::any();
    kani::assume(sb < 16);
    let blk = sb / 8;
    let left = sb % 8;
    let fieldv = if left == 0 { 0 } else { ((pairs[2 * blk + 1] >> ((7 - left) * 9)) & 0x1FF) as usize };
    assert!(rs.sub_block_rank(sb) == pairs[2 * blk] as usize + fieldv);
    kani::cover!(left == 7 && fieldv == 448, "largest possible 9-bit counter");
    core::mem::forget(rs);
}

/// Directory invariant established by `RSNarrow::new` for NB 512-bit blocks: per-word populations 0..=64.
fn any_directory<const NB: usize>() -> ([u64; 10], [usize; 33]) {
    let inc: [u8; 32] = kani::any();
    let mut cum = [0usize; 33]; // ones before word w
    let mut w = 0;
    while w < 32 {
        let d = if w < 8 * NB { inc[w] as usize } else { 0 };
        kani::assume(d <= 64);
        cum[w + 1] = cum[w] + d;
        w += 1;
    }
    let mut pairs = [0u64; 10];
    let mut b = 0;
    while b < NB {
        let base = cum[8 * b];
        pairs[2 * b] = base as u64;
        let mut sub = 0u64;
        let mut j = 1;
        while j < 8 {
            sub |= ((cum[8 * b + j] - base) as u64) << ((7 - j) * 9);
            j += 1;
        }
        pairs[2 * b + 1] = sub;
        b += 1;
    }
    pairs[2 * NB] = cum[8 * NB] as u64; // (total, 0)
    pairs[2 * NB + 1] = 0;
    pairs[2 * NB + 2] = cum[8 * NB] as u64; // second guard pair written when NB % 8 > 0
    pairs[2 * NB + 3] = 0;
    (pairs, cum)
}

/// count of ones (ONES) / zeros before word w, from the per-word cumulative ones `cum`
fn cnt_before<const ONES: bool>(cum: &[usize; 33], w: usize) -> usize {
    if ONES {
        cum[w]
    } else {
        64 * w - cum[w]
    }
}
/// block (512 bits) holding the (k+1)-th occurrence, among NB blocks (k < total)
fn blk_of<const ONES: bool, const NB: usize>(cum: &[usize; 33], k: usize) -> usize {
    let mut r = 0;
    let mut b = 0;
    while b < NB {
        if cnt_before::<ONES>(cum, 8 * b) <= k {
            r = b;
        }
        b += 1;
    }
    r
}
/// Weakest condition on the select hints under which the block search is right (what `new` has to
/// establish, and all the stage harness assumes): for every hint period h that holds an occurrence,
/// hints[h] is not after the block of occurrence 1024*h, hints[h+1] is not before the block of the
/// last occurrence of the period, and every hint indexes an existing (rank, sub-ranks) pair.
fn hints_ok<const ONES: bool, const NB: usize>(cum: &[usize; 33], hints: &[usize], npairs: usize) -> bool {
    let total = cnt_before::<ONES>(cum, 8 * NB);
    let mut ok = true;
    let mut h = 0;
    while h < 3 {
        if 1024 * h < total {
            if h + 1 >= hints.len() {
                return false;
            }
            let last_k = if 1024 * (h + 1) < total { 1024 * (h + 1) - 1 } else { total - 1 };
            ok = ok && hints[h] <= blk_of::<ONES, NB>(cum, 1024 * h);
            ok = ok && hints[h + 1] >= blk_of::<ONES, NB>(cum, last_k);
            ok = ok && hints[h] < npairs && hints[h + 1] < npairs;
        }
        h += 1;
    }
    ok
}

macro_rules! select_stage {
    ($name:ident, $nb:expr, $ones:expr) => {
        #[kani::proof]
        #[kani::unwind(36)]
        fn $name() {
            const NB: usize = $nb;
            let (pairs, cum) = any_directory::<NB>();
            let npairs = NB + 2;
            let total = cnt_before::<$ones>(&cum, 8 * NB);
            // any hints satisfying the weakest precondition (not only the ones `new` happens to write)
            let hints: [usize; 3] = kani::any();
            kani::assume(hints_ok::<$ones, NB>(&cum, &hints, npairs));
            let dummy = [0usize, npairs - 1, npairs - 1];
            let rs = if $ones {
                assemble(&pairs[..2 * npairs], &dummy, &hints, BitVector::default())
            } else {
                assemble(&pairs[..2 * npairs], &hints, &dummy, BitVector::default())
            };
            let k: usize = kani::any();
            kani::assume(k < total);
            let (wd, rank) = if $ones { rs.select1_subblock(k) } else { rs.select0_subblock(k) };
            assert!(wd < 8 * NB);
            let before = cnt_before::<$ones>(&cum, wd);
            let after = cnt_before::<$ones>(&cum, wd + 1);
            assert!(rank == before);
            assert!(before <= k && k < after);
            kani::cover!(wd == 8 * NB - 1, "answer in the last word");
            kani::cover!(wd % 8 == 0 && wd > 0, "answer in the first word of a later block");
            kani::cover!(k >= 1024, "query in the second hint period");
            kani::cover!(k >= 1024 && hints[1] < blk_of::<$ones, NB>(&cum, 1024), "hint before the block it must not pass");
            core::mem::forget(rs);
        }
    };
}
// @h props=C06,C04:t,C10 tier=quick family=S mem=6 timeout=1800 role=rsnarrow.select1_subblock
// @bound assembled directory of 3 blocks (24 words) with arbitrary per-word populations 0..=64 (up to 1536 ones: two hint periods) and ANY select hints satisfying the weakest precondition; every valid k
// @funcs RSNarrow::select1_subblock, RSNarrow::sub_block_rank, RSNarrow::block_rank
select_stage!(c06_narrow_select1_stage_nb3, 3, true);
// @h props=C06,C04:t,C10 tier=quick family=S mem=6 timeout=1800 role=rsnarrow.select0_subblock
// @bound assembled directory of 3 blocks with arbitrary per-word populations and ANY admissible hints; every valid k (zeros)
// @funcs RSNarrow::select0_subblock, RSNarrow::sub_block_rank, RSNarrow::block_rank
select_stage!(c06_narrow_select0_stage_nb3, 3, false);

/// `new` on concrete vectors (zeros 0..z, ones z..n): establishes the directory layout and admissible hints
/// (the two facts the stage harnesses assume); rank for every position (symbolic). select() through the
/// heap-allocated directory exhausts memory in CBMC's array theory even on concrete contents (probe: 21 GB):
/// it is decided at stage level (select*_subblock on assembled directories) + line kernel.
macro_rules! narrow_concrete {
    ($name:ident, $l:expr, $n:expr, $z:expr, $unw:expr) => {
        #[kani::proof]
        #[kani::unwind($unw)]
        fn $name() {
            const N: usize = $n;
            const Z: usize = $z;
            const WORDS: [u64; 8 * $l] = pattern_words::<{ 8 * $l }>($z, $n);
            let mut lines: Vec<crate::bitvector::DataLine> = Vec::with_capacity($l);
            let mut cum = [0usize; 33];
            let mut l = 0;
            while l < $l {
                let mut dl = crate::bitvector::DataLine::default();
                let mut k = 0;
                while k < 8 {
                    dl.words[k] = WORDS[8 * l + k];
                    cum[8 * l + k + 1] = cum[8 * l + k] + WORDS[8 * l + k].count_ones() as usize;
                    k += 1;
                }
                lines.push(dl);
                l += 1;
            }
            let bv = BitVector { data: lines.into_boxed_slice(), n_bits: N, n_ones: N - Z };
            let rs = RSNarrow::new(bv);
            assert!(rs.n_ones() == N - Z && rs.n_zeros() == Z);
            // layout: every word's rank; the pairs after the last block carry the total
            let npairs = rs.block_rank_pairs.len() / 2;
            assert!(npairs >= $l + 1);
            let mut w = 0;
            while w < 8 * $l {
                assert!(rs.sub_block_rank(w) == cum[w]);
                w += 1;
            }
            assert!(rs.block_rank($l) == N - Z);
            // hints admissible for ones and for zeros
            assert!(hints_ok::<true, $l>(&cum, &rs.select_samples[1], npairs));
            assert!(hints_ok::<false, $l>(&cum, &rs.select_samples[0], npairs));
            // rank for every position
            let i: usize = kani::any();
            let r = rs.rank1(i);
            if i <= N {
                assert!(r == Some(if i > Z { i - Z } else { 0 }));
            } else {
                assert!(r.is_none());
            }
            kani::cover!(i == N, "rank at the end");
            core::mem::forget(rs);
        }
    };
}
// @h props=C06:t,C04:t tier=thorough family=T optional=yes mem=45 timeout=3600 role=rsnarrow.concrete.all_ones
// @bound RSNarrow::new on the concrete all-ones vector of 1536 bits (3 lines, two hint periods): layout, admissible hints, rank1 for every position (symbolic); select through this directory is the stage harness
// @funcs RSNarrow::new, RSNarrow::rank1, RSNarrow::select1, RSNarrow::select0, RSNarrow::n_ones, RSNarrow::sub_block_rank
narrow_concrete!(c06_narrow_concrete_ones1536, 3, 1536, 0, 27);
// @h props=C06:t,C04:t tier=thorough family=T optional=yes mem=45 timeout=3600 role=rsnarrow.concrete.tail_cross
// @bound RSNarrow::new on 452 zeros followed by 1030 ones (1482 bits: the 1024-th one lies in the last word of the vector)
// @funcs RSNarrow::new, RSNarrow::rank1, RSNarrow::select1, RSNarrow::select0
narrow_concrete!(c06_narrow_concrete_tail_cross, 3, 1482, 452, 27);
// @h props=C06 tier=thorough family=T optional=yes mem=45 timeout=3600 role=rsnarrow.concrete.zeros_then_ones
// @bound RSNarrow::new on 1100 zeros followed by 60 ones (1160 bits: the zeros cross a hint period)
// @funcs RSNarrow::new, RSNarrow::rank1, RSNarrow::select1, RSNarrow::select0
narrow_concrete!(c06_narrow_concrete_zeros1100, 3, 1160, 1100, 27);

macro_rules! new_layout {
    ($name:ident, $l:expr) => {
        #[kani::proof]
        #[kani::unwind(20)]
        fn $name() {
            let (words, n) = any_words::<$l>();
            let rs = RSNarrow::new(mk_imm::<$l>(&words, n));
            assert!(rs.block_rank_pairs.len() == 2 * ($l + 2));
            let mut cum = 0usize;
            let mut w = 0;
            while w < 8 * $l {
                assert!(rs.sub_block_rank(w) == cum);
                cum += words[w].count_ones() as usize;
                w += 1;
            }
            assert!(rs.block_rank($l) == cum && rs.block_rank($l + 1) == cum);
            assert!(rs.n_ones() == cum && rs.n_zeros() == n - cum);
            // fewer than 1024 ones / zeros in one line: one sample + the guard, for both symbols
            if $l == 1 {
                assert!(rs.select_samples[0].len() == 2 && rs.select_samples[1].len() == 2);
                assert!(rs.select_samples[0][1] == $l + 1 && rs.select_samples[1][1] == $l + 1);
            }
            assert!(rs.select_samples[0][0] == 0 && rs.select_samples[1][0] == 0);
            kani::cover!(cum == n, "all ones");
            kani::cover!(cum == 0, "all zeros");
            core::mem::forget(rs);
        }
    };
}
// @h props=C06,C09:t,C19:t tier=thorough family=T optional=yes mem=40 timeout=3600 role=rsnarrow.new
// @bound RSNarrow::new on any bit vector of 1..=512 bits: directory layout, totals, samples
// @funcs RSNarrow::new, RSNarrow::sub_block_rank, RSNarrow::n_ones, RSNarrow::n_zeros
new_layout!(c06_narrow_new_l1, 1);

macro_rules! narrow_rank_law {
    ($name:ident, $l:expr) => {
        #[kani::proof]
        #[kani::unwind(20)]
        fn $name() {
            let (words, n) = any_words::<$l>();
            let rs = RSNarrow::new(mk_imm::<$l>(&words, n));
            let i: usize = kani::any();
            let r = rs.rank1(i);
            let g = rs.get(i);
            if i < n {
                assert!(g == Some(bit(&words, i)));
                let r1 = rs.rank1(i + 1);
                assert!(r.is_some() && r1.is_some());
                assert!(r1.unwrap() == r.unwrap() + bit(&words, i) as usize);
                assert!(rs.rank0(i) == Some(i - r.unwrap()));
                assert!(unsafe { rs.rank1_unchecked(i) } == r.unwrap());
                assert!(unsafe { rs.rank0_unchecked(i) } == i - r.unwrap());
            } else if i == n {
                assert!(g.is_none());
                assert!(r == Some(rs.n_ones()));
                assert!(rs.rank0(i) == Some(rs.n_zeros()));
            } else {
                assert!(g.is_none() && r.is_none() && rs.rank0(i).is_none());
            }
            assert!(rs.rank1(0) == Some(0));
            kani::cover!(i.wrapping_add(1) == n, "last position");
            kani::cover!(i == usize::MAX, "largest position");
            core::mem::forget(rs);
        }
    };
}
// @h props=C06,C10:t tier=thorough family=T optional=yes mem=40 timeout=3600 role=rsnarrow.rank
// @bound RSNarrow built by `new` from any bit vector of 1..=512 bits: get / rank1 / rank0 laws for every position of the machine range, checked and unchecked
// @funcs RSNarrow::new, RSNarrow::rank1, RSNarrow::rank1_unchecked, RSNarrow::rank0, RSNarrow::rank0_unchecked, RSNarrow::get, RSNarrow::sub_block_rank
narrow_rank_law!(c06_narrow_rank_law_l1, 1);

// @h props=C06,C10:t tier=thorough family=T optional=yes mem=40 timeout=3600 role=rsnarrow.select
// @bound RSNarrow built by `new` from any bit vector of 1..=64 bits (one symbolic word): select1 / select0 for every k of the machine range
// @funcs RSNarrow::new, RSNarrow::select1, RSNarrow::select0, RSNarrow::select1_unchecked, RSNarrow::select0_unchecked, RSNarrow::select1_subblock, RSNarrow::select0_subblock, utils::select_in_word
#[kani::proof]
#[kani::unwind(20)]
fn c06_narrow_select_law_word() {
    let n: usize = kani::any();
    kani::assume(n >= 1 && n <= 64);
    let w: u64 = kani::any();
    let mut words = [0u64; W];
    words[0] = if n == 64 { w } else { w & ((1u64 << n) - 1) };
    let rs = RSNarrow::new(mk_imm::<1>(&words, n));
    let ones = words[0].count_ones() as usize;
    let k: usize = kani::any();
    let s1 = rs.select1(k);
    if k < ones {
        let p = s1.unwrap();
        assert!(p < n && bit(&words, p));
        assert!(rs.rank1(p) == Some(k));
        assert!(unsafe { rs.select1_unchecked(k) } == p);
    } else {
        assert!(s1.is_none());
    }
    let s0 = rs.select0(k);
    if k < n - ones {
        let p = s0.unwrap();
        assert!(p < n && !bit(&words, p));
        assert!(rs.rank0(p) == Some(k));
        assert!(unsafe { rs.select0_unchecked(k) } == p);
    } else {
        assert!(s0.is_none());
    }
    kani::cover!(k < ones && k + 1 == ones, "last one selected");
    kani::cover!(k == usize::MAX, "largest k");
    core::mem::forget(rs);
}

// @h props=C06,C04 tier=quick family=E mem=5 timeout=1200 role=rsnarrow.empty
// @bound empty and Default RSNarrow: every query with arguments over the machine range gives no position and no non-zero count, no panic
// @funcs RSNarrow::new, RSNarrow::default, RSNarrow::rank1, RSNarrow::rank0, RSNarrow::select1, RSNarrow::select0, RSNarrow::get, RSNarrow::n_ones, RSNarrow::n_zeros
#[kani::proof]
#[kani::unwind(20)]
fn c06_narrow_empty() {
    let i: usize = kani::any();
    let built = RSNarrow::new(BitVector::default());
    let dflt = RSNarrow::default();
    for rs in [&built, &dflt] {
        assert!(rs.get(i).is_none());
        let r = rs.rank1(i);
        assert!(r.is_none() || r == Some(0));
        let r0 = rs.rank0(i);
        assert!(r0.is_none() || r0 == Some(0));
        assert!(rs.select1(i).is_none());
        assert!(rs.select0(i).is_none());
        assert!(rs.n_ones() == 0 && rs.n_zeros() == 0);
    }
    kani::cover!(i == 0, "position zero");
    core::mem::forget(built);
    core::mem::forget(dflt);
}

// ------------------------------------------------------------------ rank on assembled states

macro_rules! narrow_rank_assembled {
    ($name:ident, $offs:expr, $k:expr, $unw:expr) => {
        #[kani::proof]
        #[kani::unwind($unw)]
        fn $name() {
        let (words, n) = any_words::<1>();
        let pairs: [u64; 6] = kani::any();
        kani::assume(pairs[0] < (1 << 44) && pairs[2] < (1 << 44) && pairs[4] < (1 << 44));
        kani::assume(pairs[1] >> 63 == 0 && pairs[3] >> 63 == 0 && pairs[5] >> 63 == 0);
        let rs = assemble(&pairs, &[0, 2], &[0, 2], mk_imm::<1>(&words, n));
        // positions i = 64*wd + cnt with the word index symbolic and the in-word offset enumerated concretely: a
        // symbolic shift amount under a pop-count is what did not finish (1200 s); with cnt concrete the shift is a rewiring
        let wd: usize = kani::any();
        kani::assume(wd < 8);
        let offs: [usize; $k] = $offs;
        let mut t = 0usize;
        while t < $k {
            let cnt = offs[t];
            let i = 64 * wd + cnt;
            if i <= n {
                let low = if cnt == 64 { words[wd] } else { words[wd] & ((1u64 << cnt) - 1) };
                let exp = rs.sub_block_rank(wd) + low.count_ones() as usize;
                assert!(rs.rank1(i) == Some(exp));
                assert!(unsafe { rs.rank1_unchecked(i) } == exp);
                if exp <= i {
                    assert!(rs.rank0(i) == Some(i - exp));
                    assert!(unsafe { rs.rank0_unchecked(i) } == i - exp);
                }
            }
            t += 1;
        }
        assert!(rs.rank1(0) == Some(0));
        assert!(unsafe { rs.rank1_unchecked(0) } == 0);
        assert!(unsafe { rs.rank0_unchecked(0) } == 0);
        let i: usize = kani::any();
        if i > n {
            assert!(rs.rank1(i).is_none() && rs.rank0(i).is_none());
        }
        let g = rs.get(i);
        assert!(g == if i < n { Some(bit(&words, i)) } else { None });
        kani::cover!(i == usize::MAX, "largest position");
        kani::cover!(wd == 7 && n == 512, "last word of a full line");
        core::mem::forget(rs);
        }
    };
}
// @h props=C06,C04:t,C10:t tier=quick family=A prof=A mem=5 timeout=1800 role=rsnarrow.rank.assembled
// @bound RSNarrow assembled over any bit vector of 1..=512 bits and an ARBITRARY directory: rank1(i) = sub_block_rank(word) + ones among the first cnt bits of that word, for i = 64*word + cnt with the word symbolic and cnt in {1, 2, 32, 63, 64}; rank1(0) = 0 (also unchecked); None past the end; rank0 and the unchecked forms agree
// @funcs RSNarrow::rank1, RSNarrow::rank1_unchecked, RSNarrow::rank0, RSNarrow::rank0_unchecked, RSNarrow::get
narrow_rank_assembled!(c06_narrow_rank_assembled_l1, [1, 2, 32, 63, 64], 5, 20);
// @h props=C06,C10:t tier=thorough family=A optional=yes mem=30 timeout=3600 role=rsnarrow.rank.assembled
// @bound the same for every in-word offset cnt in 1..=64 (a symbolic offset under the pop-count did not finish in 1200 s, so the offsets are enumerated)
// @funcs RSNarrow::rank1, RSNarrow::rank1_unchecked
narrow_rank_assembled!(c06_narrow_rank_assembled_l1_all, [1, 2, 3, 4, 5, 6, 7, 8, 9, 10, 11, 12, 13, 14, 15, 16, 17, 18, 19, 20, 21, 22, 23, 24, 25, 26, 27, 28, 29, 30, 31, 32, 33, 34, 35, 36, 37, 38, 39, 40, 41, 42, 43, 44, 45, 46, 47, 48, 49, 50, 51, 52, 53, 54, 55, 56, 57, 58, 59, 60, 61, 62, 63, 64], 64, 66);
