//! C05 — RSQVector: in-block kernels on assembled vectors, tiny end-to-end laws through the constructors.
//! Child module of `qvector::rs_qvector`.
use super::*;
use crate::qvector::DataLine;

#[inline]
fn sym(dl: &DataLine, i: usize) -> u8 {
    let hi = (dl.words[i >> 7] >> (i & 127)) & 1;
    let lo = (dl.words[2 + (i >> 7)] >> (i & 127)) & 1;
    ((hi << 1) | lo) as u8
}

fn const_half(dl: &mut DataLine, half: usize, s: u8) {
    dl.words[half] = if s & 2 != 0 { u128::MAX } else { 0 };
    dl.words[2 + half] = if s & 1 != 0 { u128::MAX } else { 0 };
}

/// L lines. `full`: every bit symbolic. Otherwise each 128-symbol half is either fully symbolic (one
/// symbolic choice of which) or filled with one symbolic constant symbol - keeps pop-count reasoning local.
fn any_lines<const L: usize>(full: bool) -> [DataLine; L] {
    let mut lines = [DataLine::default(); L];
    let which: usize = kani::any();
    kani::assume(which < 2 * L);
    let mut l = 0;
    while l < L {
        let raw = DataLine { words: kani::any() };
        if full {
            lines[l] = raw;
        } else {
            let mut h = 0;
            while h < 2 {
                if which == 2 * l + h {
                    lines[l].words[h] = raw.words[h];
                    lines[l].words[2 + h] = raw.words[2 + h];
                } else {
                    let s: u8 = kani::any();
                    const_half(&mut lines[l], h, s & 3);
                }
                h += 1;
            }
        }
        l += 1;
    }
    lines
}

fn assemble<S: RSSupport + Default, const L: usize>(lines: &[DataLine; L], n: usize) -> RSQVector<S> {
    RSQVector { qv: QVector { data: lines.to_vec().into_boxed_slice(), position: 2 * n }, rs_support: S::default(), n_occs_smaller: [0; 5] }
}

/// occurrences of c in the first p symbols of the block that starts at line `l0` (uses the line kernel verified in c05_qline)
fn cnt<const L: usize>(lines: &[DataLine; L], l0: usize, c: u8, p: usize) -> usize {
    if p <= 256 {
        unsafe { lines[l0].rank_unchecked(c, p) }
    } else {
        unsafe { lines[l0].rank_unchecked(c, 256) + lines[l0 + 1].rank_unchecked(c, p - 256) }
    }
}

macro_rules! select_intra {
    ($name:ident, $s:ty, $b:expr, $l:expr, $full:expr) => {
        #[kani::proof]
        #[kani::unwind(6)]
        #[kani::stub(crate::utils::select_in_word_u128, crate::utils::verif_utils_stubs::select_in_word_u128_contract)]
        fn $name() {
            const L: usize = $l;
            let lines = any_lines::<L>($full);
            let rs: RSQVector<$s> = assemble(&lines, 256 * L);
            let c: u8 = kani::any();
            kani::assume(c < 4);
            let blk: usize = kani::any();
            kani::assume(blk < 256 * L / $b);
            let pos = blk * $b;
            let l0 = pos / 256;
            let total = cnt(&lines, l0, c, $b);
            let i: usize = kani::any();
            kani::assume(i >= 1 && i <= total); // the i-th occurrence inside this block exists
            let p = rs.select_intra_block(c, i, pos);
            assert!(p < $b);
            assert!(sym(&lines[(pos + p) / 256], (pos + p) % 256) == c);
            assert!(cnt(&lines, l0, c, p) == i - 1);
            kani::cover!(p >= 256 || $b == 256, "answer in the second line of a 512 block");
            kani::cover!(i == 1, "first occurrence of the block");
            kani::cover!(p % 128 == 127, "answer at the end of a 128-bit word");
            core::mem::forget(rs);
        }
    };
}
// @h props=C05,C04:t,C10 tier=quick family=K mem=5 timeout=2400 stubs=utils::select_in_word_u128->contract(c17_select_in_word_u128_law) role=rsqvector.select_intra_block.256
// @bound B=256: one line; one 128-symbol half fully symbolic, the other a symbolic constant symbol; all symbols, every existing in-block occurrence
// @funcs RSQVector::select_intra_block, qvector::DataLine::normalize, utils::select_in_word_u128
select_intra!(c05_select_intra_256_half, RSSupportPlain<256>, 256, 1, false);
// @h props=C05,C04:t,C10 tier=quick family=K mem=5 timeout=2400 stubs=utils::select_in_word_u128->contract(c17_select_in_word_u128_law) role=rsqvector.select_intra_block.512
// @bound B=512: two lines (one block); one of the four 128-symbol halves fully symbolic, the others symbolic constant symbols; every existing in-block occurrence
// @funcs RSQVector::select_intra_block, qvector::DataLine::normalize, utils::select_in_word_u128
select_intra!(c05_select_intra_512_half, RSSupportPlain<512>, 512, 2, false);
// @h props=C05,C10:t tier=thorough family=K mem=5 timeout=3600 stubs=utils::select_in_word_u128->contract(c17_select_in_word_u128_law) role=rsqvector.select_intra_block.256
// @bound B=256: one fully symbolic line (all 2^512 contents)
// @funcs RSQVector::select_intra_block, qvector::DataLine::normalize, utils::select_in_word_u128
select_intra!(c05_select_intra_256_full, RSSupportPlain<256>, 256, 1, true);
// @h props=C05,C10:t tier=thorough family=K mem=5 timeout=3600 stubs=utils::select_in_word_u128->contract(c17_select_in_word_u128_law) role=rsqvector.select_intra_block.512
// @bound B=512: two fully symbolic lines
// @funcs RSQVector::select_intra_block, qvector::DataLine::normalize, utils::select_in_word_u128
select_intra!(c05_select_intra_512_full, RSSupportPlain<512>, 512, 2, true);

macro_rules! rank_intra {
    ($name:ident, $s:ty, $b:expr, $l:expr) => {
        #[kani::proof]
        #[kani::unwind(6)]
        fn $name() {
            const L: usize = $l;
            let lines = any_lines::<L>(true);
            let n: usize = kani::any();
            kani::assume(n > 256 * (L - 1) && n <= 256 * L);
            let rs: RSQVector<$s> = assemble(&lines, n);
            let c: u8 = kani::any();
            kani::assume(c < 4);
            let i: usize = kani::any();
            kani::assume(i <= n);
            let r = rs.rank_intra_block(c, i);
            if i % $b == 0 {
                assert!(r == 0); // nothing counted at a block start
            }
            if i < n {
                let r1 = rs.rank_intra_block(c, i + 1);
                if (i + 1) % $b == 0 {
                    assert!(r1 == 0);
                } else {
                    assert!(r1 == r + (sym(&lines[i / 256], i % 256) == c) as usize);
                }
            }
            kani::cover!(i == n && n == 256 * L, "position == length at a line boundary (no line there)");
            kani::cover!(i % 256 == 255, "last symbol of a line");
            core::mem::forget(rs);
        }
    };
}
// @h props=C05,C04:t tier=quick family=K mem=5 timeout=2400 role=rsqvector.rank_intra_block.256
// @bound B=256: two fully symbolic lines, length 257..=512 symbolic, every symbol and position <= length
// @funcs RSQVector::rank_intra_block, qvector::DataLine::rank_unchecked
rank_intra!(c05_rank_intra_256, RSSupportPlain<256>, 256, 2);
// @h props=C05,C04:t tier=thorough family=K mem=5 timeout=3600 role=rsqvector.rank_intra_block.512
// @bound B=512: three fully symbolic lines (one and a half blocks), length 513..=768 symbolic
// @funcs RSQVector::rank_intra_block, qvector::DataLine::rank_unchecked
rank_intra!(c05_rank_intra_512, RSSupportPlain<512>, 512, 3);

// ------------------------------------------------------------------------------ tiny end-to-end

macro_rules! tiny_e2e {
    ($name:ident, $ty:ty, $n:expr, $path:expr) => {
        #[kani::proof]
        #[kani::unwind(8)]
        fn $name() {
            const N: usize = $n;
            let raw: [u8; N] = kani::any();
            let mut q = [0u8; N];
            let mut j = 0;
            while j < N {
                kani::assume(raw[j] < 4);
                q[j] = raw[j];
                j += 1;
            }
            // N == 0: a zero-length slice of a real one-element array (CBMC does not decide `ptr == end` on a
            // zero-sized array object and would unroll the builder loop to the bound)
            let base = [0u8; 1];
            let qs: &[u8] = if N == 0 { &base[..0] } else { &q[..] };
            let rs: $ty = if $path == 0 {
                <$ty>::new(qs)
            } else if $path == 1 {
                qs.iter().copied().collect()
            } else {
                <$ty>::from(qs.iter().copied().collect::<QVector>())
            };
            assert!(rs.len() == N && rs.is_empty() == (N == 0));
            let c: u8 = kani::any();
            let i: usize = kani::any();
            // get
            let g = rs.get(i);
            if i < N {
                assert!(g == Some(q[i]));
                assert!(unsafe { rs.get_unchecked(i) } == q[i]);
            } else {
                assert!(g.is_none());
            }
            // rank: local law; None for invalid symbol or position
            let r = rs.rank(c, i);
            if c < 4 && i <= N {
                assert!(r.is_some());
                assert!(unsafe { rs.rank_unchecked(c, i) } == r.unwrap());
                if i == 0 {
                    assert!(r == Some(0));
                }
                if i < N {
                    assert!(rs.rank(c, i + 1) == Some(r.unwrap() + (q[i] == c) as usize));
                }
            } else {
                assert!(r.is_none());
            }
            // totals
            let mut occ = [0usize; 4];
            let mut j = 0;
            while j < N {
                occ[q[j] as usize] += 1;
                j += 1;
            }
            if c < 4 {
                assert!(rs.occs(c) == Some(occ[c as usize]));
                assert!(rs.rank(c, N) == Some(occ[c as usize]));
                let mut smaller = 0;
                let mut s = 0;
                while s < 4 {
                    if s < c {
                        smaller += occ[s as usize];
                    }
                    s += 1;
                }
                assert!(rs.occs_smaller(c) == Some(smaller));
                assert!(unsafe { rs.occs_unchecked(c) } == occ[c as usize]);
                assert!(unsafe { rs.occs_smaller_unchecked(c) } == smaller);
            } else {
                assert!(rs.occs(c).is_none() && rs.occs_smaller(c).is_none());
            }
            kani::cover!(c == 255, "symbol far above 3");
            kani::cover!(c == 4, "first invalid symbol");
            kani::cover!(i == usize::MAX, "largest position");
            kani::cover!(N == 0 || (c < 4 && i == N), "rank at the very end");
            core::mem::forget(rs);
        }
    };
}
// @h props=C05,C04,C10:t,C19:t tier=quick family=T prof=A mem=5 timeout=3000 role=rsqvector256.tiny
// @bound RSQVector256::new on 3 symbolic symbols: get, rank law, occs, occs_smaller for every symbol byte and every position of the machine range, checked and unchecked
// @funcs RSQVector::new, RSQVector::from<QVector>, RSSupportPlain::new, RSQVector::rank, RSQVector::rank_unchecked, RSQVector::get, RSQVector::occs, RSQVector::occs_smaller, RSSupportPlain::rank_block, RSQVector::rank_intra_block
tiny_e2e!(c05_tiny_256_new_n3, RSQVector256, 3, 0);
// @h props=C05,C04:t,C19:t tier=quick family=T mem=5 timeout=3000 role=rsqvector512.tiny
// @bound RSQVector512 collected from 3 symbolic symbols
// @funcs RSQVector::from_iter, RSSupportPlain::new, RSQVector::rank, RSQVector::get, RSQVector::occs, RSQVector::occs_smaller
tiny_e2e!(c05_tiny_512_collect_n3, RSQVector512, 3, 1);
// @h props=C05,C04 tier=quick family=E mem=5 timeout=1800 role=rsqvector256.empty
// @bound empty RSQVector256 (new on an empty slice): every query, all arguments
// @funcs RSQVector::new, RSQVector::rank, RSQVector::get, RSQVector::occs
tiny_e2e!(c05_tiny_256_empty, RSQVector256, 0, 0);
// @h props=C05,C04 tier=quick family=E mem=5 timeout=1800 role=rsqvector512.empty
// @bound empty RSQVector512 (From<QVector::default()>)
// @funcs RSQVector::from<QVector>, RSQVector::rank, RSQVector::get, RSQVector::occs
tiny_e2e!(c05_tiny_512_empty, RSQVector512, 0, 2);
// @h props=C05,C19 tier=thorough family=T mem=5 timeout=3600 role=rsqvector256.tiny
// @bound RSQVector256 from a QVector of 5 symbolic symbols
// @funcs RSQVector::from<QVector>, RSQVector::rank, RSQVector::get
tiny_e2e!(c05_tiny_256_from_n5, RSQVector256, 5, 2);
// @h props=C05 tier=thorough family=T mem=5 timeout=3600 role=rsqvector512.tiny
// @bound RSQVector512::new on 5 symbolic symbols
// @funcs RSQVector::new, RSQVector::rank, RSQVector::get
tiny_e2e!(c05_tiny_512_new_n5, RSQVector512, 5, 0);

macro_rules! tiny_select {
    ($name:ident, $ty:ty, $n:expr) => {
        #[kani::proof]
        #[kani::unwind(8)]
        fn $name() {
            const N: usize = $n;
            let raw: [u8; N] = kani::any();
            let mut q = [0u8; N];
            let mut j = 0;
            while j < N {
                kani::assume(raw[j] < 4);
                q[j] = raw[j];
                j += 1;
            }
            let base = [0u8; 1];
            let qs: &[u8] = if N == 0 { &base[..0] } else { &q[..] };
            let rs = <$ty>::new(qs);
            let c: u8 = kani::any();
            let k: usize = kani::any();
            let mut occ = 0usize;
            let mut j = 0;
            while j < N {
                if q[j] == c {
                    occ += 1;
                }
                j += 1;
            }
            let s = rs.select(c, k);
            if c < 4 && k < occ {
                let p = s.unwrap();
                assert!(p < N && q[p] == c);
                assert!(rs.rank(c, p) == Some(k));
                // C10: the unchecked twin on a valid argument, with debug assertions on
                assert!(unsafe { rs.select_unchecked(c, k) } == p);
            } else {
                assert!(s.is_none());
            }
            kani::cover!(N == 0 || (c < 4 && k.wrapping_add(1) == occ), "last occurrence selected");
            kani::cover!(k == usize::MAX, "largest k");
            kani::cover!(c > 3, "invalid symbol");
            core::mem::forget(rs);
        }
    };
}
// @h props=C05,C04:t,C10:t tier=thorough family=T optional=yes mem=30 timeout=3600 role=rsqvector256.tiny_select
// @bound RSQVector256::new on 2 symbolic symbols: select for every symbol byte and every k of the machine range (optional: reported inconclusive if it exceeds 30 GB)
// @funcs RSQVector::select, RSSupportPlain::select_block, RSQVector::select_intra_block, SuperblockPlain::block_predecessor
tiny_select!(c05_tiny_256_select_n2, RSQVector256, 2);
// @h props=C05,C04 tier=quick family=E mem=5 timeout=1800 role=rsqvector256.empty_select
// @bound empty RSQVector256: select for every symbol byte and every k
// @funcs RSQVector::select
tiny_select!(c05_tiny_256_select_empty, RSQVector256, 0);
// @h props=C05,C04:t,C10:t tier=thorough family=T optional=yes mem=20 timeout=3600 role=rsqvector256.tiny_select
// @bound RSQVector256::new on 1 symbolic symbol: select / select_unchecked for every symbol byte and every k of the machine range
// @funcs RSQVector::select, RSQVector::select_unchecked, RSSupportPlain::select_block, RSQVector::select_intra_block, SuperblockPlain::block_predecessor
tiny_select!(c05_tiny_256_select_n1, RSQVector256, 1);
// @h props=C05,C10:t tier=thorough family=T optional=yes mem=20 timeout=3600 role=rsqvector512.tiny_select
// @bound RSQVector512::new on 1 symbolic symbol: select / select_unchecked
// @funcs RSQVector::select, RSQVector::select_unchecked, RSSupportPlain::select_block, RSQVector::select_intra_block
tiny_select!(c05_tiny_512_select_n1, RSQVector512, 1);

macro_rules! select_unchecked_valid {
    ($name:ident, $ty:ty) => {
        #[kani::proof]
        #[kani::unwind(8)]
        fn $name() {
            let s: u8 = kani::any();
            kani::assume(s < 4);
            let q = [s];
            let a = <$ty>::new(&q);
            // a valid call: the first occurrence of s exists
            assert!(unsafe { a.select_unchecked(s, 0) } == 0);
            kani::cover!(s == 3, "largest symbol");
            core::mem::forget(a);
        }
    };
}
// @h props=C05,C04:t,C10 tier=quick family=T mem=16 timeout=1800 role=rsqvector256.select_unchecked.valid
// @bound RSQVector256 over the one-symbol vector [s] (s symbolic): select_unchecked(s, 0) - a valid call - returns 0 and does not trip a debug assertion
// @funcs RSQVector::select_unchecked, RSQVector::select, RSSupportPlain::select_block, RSQVector::select_intra_block
select_unchecked_valid!(c05_select_unchecked_valid_256, RSQVector256);
// @h props=C05,C10:t tier=thorough family=T prof=AB mem=20 timeout=3600 role=rsqvector512.select_unchecked.valid
// @bound RSQVector512 over the one-symbol vector [s]: select_unchecked(s, 0), with and without debug assertions
// @funcs RSQVector::select_unchecked, RSQVector::select
select_unchecked_valid!(c05_select_unchecked_valid_512, RSQVector512);
