//! Contract stubs for the word-level selects (no harnesses). Child module of `utils`.
//! The contracts are exactly what c17_select_in_word_law / c17_select_in_word_u128_law decide for ALL
//! words, so a caller verified against the stub is verified against the real function (composition
//! argument, listed under `assumptions`). The stubs also ASSERT the argument range the contract covers.
#![allow(dead_code)]

pub(crate) fn select_in_word_contract(word: u64, k: u64) -> u32 {
    assert!(k < 64, "select_in_word called outside its contract (k >= 64)");
    let r: u32 = kani::any();
    if (word.count_ones() as u64) > k {
        kani::assume(r < 64);
        kani::assume((word >> r) & 1 == 1);
        kani::assume(((word & ((1u64 << r) - 1)).count_ones() as u64) == k);
    } else {
        kani::assume(r == 64);
    }
    r
}

pub(crate) fn select_in_word_u128_contract(word: u128, k: u64) -> u32 {
    assert!(k < 128, "select_in_word_u128 called outside its contract (k >= 128)");
    let r: u32 = kani::any();
    if (word.count_ones() as u64) > k {
        kani::assume(r < 128);
        kani::assume((word >> r) & 1 == 1);
        kani::assume(((word & ((1u128 << r) - 1)).count_ones() as u64) == k);
    } else {
        kani::assume(r == 128);
    }
    r
}
