//! C01 / C09 / C10 / C19 — the real QWaveletTree code over the contract model of a level (ModelRS).
//! Child module of `quadwt`.
use super::verif_qwt_model::*;
use super::*;
use crate::{AccessUnsigned, RankUnsigned, SelectUnsigned};

type Tree<T, const P: bool> = QWaveletTree<T, ModelRS, P>;

fn occ<T: PartialEq + Copy, const N: usize>(s: &[T; N], c: T, upto: usize) -> usize {
    let mut k = 0;
    let mut j = 0;
    while j < N {
        if j < upto && s[j] == c {
            k += 1;
        }
        j += 1;
    }
    k
}

/// Symbolic sequence with the element at `PIN` fixed to the type maximum, so that the number of
/// levels (an allocation size) is concrete: the tree has the full depth of the type.
macro_rules! any_seq {
    ($t:ty, $n:expr, $pin:expr) => {{
        let mut s: [$t; $n] = kani::any();
        s[$pin] = <$t>::MAX;
        s
    }};
}

macro_rules! qwt_get_law {
    ($name:ident, $t:ty, $n:expr, $pin:expr, $levels:expr, $pfs:expr, $unw:expr) => {
        #[kani::proof]
        #[kani::unwind($unw)]
        #[kani::stub(crate::utils::stable_partition_of_4, part4_stub)]
        #[kani::stub(PrefetchSupport::new, pfs_new_stub)]
        #[kani::stub(PrefetchSupport::approx_rank_unchecked, pfs_approx_stub)]
        fn $name() {
            let s = any_seq!($t, $n, $pin);
            let mut w = s;
            let t = Tree::<$t, $pfs>::new(&mut w[..]);
            assert!(t.len() == $n && !t.is_empty());
            assert!(t.sigma() == Some(<$t>::MAX));
            assert!(t.n_levels() == $levels);
            let i: usize = kani::any();
            let g = t.get(i);
            if i < $n {
                assert!(g == Some(s[i]));
                assert!(unsafe { t.get_unchecked(i) } == s[i]);
            } else {
                assert!(g.is_none());
            }
            // iter() / into_iter() start at (0, len): C12
            assert!(t.iter().len() == $n);
            assert!(t.iter().next() == Some(s[0]));
            assert!(t.iter().next_back() == Some(s[$n - 1]));
            kani::cover!(i == $n - 1, "last position");
            kani::cover!(i == usize::MAX, "largest position");
            core::mem::forget(t);
        }
    };
}

macro_rules! qwt_rank_law {
    ($name:ident, $t:ty, $n:expr, $pin:expr, $pfs:expr, $unw:expr) => {
        #[kani::proof]
        #[kani::unwind($unw)]
        #[kani::stub(crate::utils::prefetch_read_NTA, noop_prefetch)]
        #[kani::stub(crate::utils::stable_partition_of_4, part4_stub)]
        #[kani::stub(PrefetchSupport::new, pfs_new_stub)]
        #[kani::stub(PrefetchSupport::approx_rank_unchecked, pfs_approx_stub)]
        fn $name() {
            let s = any_seq!($t, $n, $pin);
            let mut w = s;
            let t = Tree::<$t, $pfs>::new(&mut w[..]);
            let c: $t = kani::any();
            let i: usize = kani::any();
            let r = t.rank(c, i);
            // every symbol is <= max here (max is the type maximum): None only for positions past the end
            if i <= $n {
                assert!(r == Some(occ(&s, c, i)));
                assert!(unsafe { t.rank_unchecked(c, i) } == occ(&s, c, i));
                // C09: the prefetching variant gives the same answer whatever the block estimates are
                assert!(t.rank_prefetch(c, i) == r);
                assert!(unsafe { t.rank_prefetch_unchecked(c, i) } == occ(&s, c, i));
            } else {
                assert!(r.is_none());
                assert!(t.rank_prefetch(c, i).is_none());
            }
            kani::cover!(i == $n && r == Some($n), "every element equals c");
            kani::cover!(i == $n && r == Some(0), "c does not occur");
            kani::cover!(i == usize::MAX, "largest position");
            core::mem::forget(t);
        }
    };
}

macro_rules! qwt_select_law {
    ($name:ident, $t:ty, $n:expr, $pin:expr, $pfs:expr, $unw:expr) => {
        #[kani::proof]
        #[kani::unwind($unw)]
        #[kani::stub(crate::utils::stable_partition_of_4, part4_stub)]
        #[kani::stub(PrefetchSupport::new, pfs_new_stub)]
        #[kani::stub(PrefetchSupport::approx_rank_unchecked, pfs_approx_stub)]
        fn $name() {
            let s = any_seq!($t, $n, $pin);
            let mut w = s;
            let t = Tree::<$t, $pfs>::new(&mut w[..]);
            let c: $t = kani::any();
            let k: usize = kani::any();
            let r = t.select(c, k);
            if k < occ(&s, c, $n) {
                let p = r.unwrap();
                assert!(p < $n && s[p] == c);
                assert!(occ(&s, c, p) == k);
                assert!(unsafe { t.select_unchecked(c, k) } == p);
            } else {
                assert!(r.is_none());
            }
            kani::cover!(k.wrapping_add(1) == occ(&s, c, $n) && k > 0, "last of several occurrences");
            kani::cover!(k == usize::MAX, "largest k");
            kani::cover!(occ(&s, c, $n) == 0, "symbol does not occur");
            core::mem::forget(t);
        }
    };
}

// ---- u8: 4 levels
// @h props=C01,C04,C10,C12:t,C19:t tier=quick family=M prof=AB mem=5 timeout=1800 stubs=ModelRS,utils::stable_partition_of_4->fixed_array_reference(c17) role=qwt.get.u8
// @bound QWaveletTree<u8, ModelRS>: length 3, contents symbolic with s[last] = 255 (4 levels); get for every index of the machine range; len, sigma, n_levels
// @funcs QWaveletTree::new, QWaveletTree::get, QWaveletTree::get_unchecked, QWaveletTree::len, QWaveletTree::sigma, QWaveletTree::n_levels, utils::stable_partition_of_4, utils::msb, QVectorBuilder::push
qwt_get_law!(c01_get_u8_n3, u8, 3, 2, 4, false, 8);
// @h props=C01:t,C04:t,C10:t,C12:t,C19:t tier=thorough family=M mem=5 timeout=1800 stubs=ModelRS,utils::stable_partition_of_4->fixed_array_reference(c17) role=qwt.get.u8
// @bound QWaveletTree<u8, ModelRS>: length 4, contents symbolic with s[last] = 255 (4 levels); get for every index of the machine range; len, sigma, n_levels
// @funcs QWaveletTree::new, QWaveletTree::get, QWaveletTree::get_unchecked, QWaveletTree::len, QWaveletTree::sigma, QWaveletTree::n_levels, utils::stable_partition_of_4, utils::msb, QVectorBuilder::push
qwt_get_law!(c01_get_u8_n4, u8, 4, 3, 4, false, 8);
// @h props=C01,C04,C09,C10 tier=quick family=M prof=ABP mem=5 timeout=2400 stubs=ModelRS,utils::prefetch_read_NTA->empty(feature_on_only),utils::stable_partition_of_4->fixed_array_reference(c17) role=qwt.rank.u8
// @bound QWaveletTree<u8, ModelRS>: length 3 (s[last] = 255); rank and rank_prefetch for every symbol and every position of the machine range, checked and unchecked; block estimates of the model arbitrary (<= true rank)
// @funcs QWaveletTree::new, QWaveletTree::rank, QWaveletTree::rank_unchecked, QWaveletTree::rank_prefetch, QWaveletTree::rank_prefetch_unchecked
qwt_rank_law!(c01_rank_u8_n3, u8, 3, 2, false, 8);
// @h props=C01:t,C04:t,C09:t,C10:t tier=thorough family=M mem=5 timeout=2400 stubs=ModelRS,utils::stable_partition_of_4->fixed_array_reference(c17) role=qwt.rank.u8
// @bound QWaveletTree<u8, ModelRS>: length 4 (s[last] = 255); rank and rank_prefetch for every symbol and every position of the machine range, checked and unchecked; block estimates of the model arbitrary (<= true rank)
// @funcs QWaveletTree::new, QWaveletTree::rank, QWaveletTree::rank_unchecked, QWaveletTree::rank_prefetch, QWaveletTree::rank_prefetch_unchecked
qwt_rank_law!(c01_rank_u8_n4, u8, 4, 3, false, 8);
// @h props=C01,C04,C10 tier=quick family=M mem=5 timeout=2400 stubs=ModelRS,utils::stable_partition_of_4->fixed_array_reference(c17) role=qwt.select.u8
// @bound QWaveletTree<u8, ModelRS>: length 3 (s[last] = 255); select for every symbol and every k of the machine range, checked and unchecked
// @funcs QWaveletTree::new, QWaveletTree::select, QWaveletTree::select_unchecked
qwt_select_law!(c01_select_u8_n3, u8, 3, 2, false, 8);
// @h props=C01:t,C04:t,C10:t tier=thorough family=M mem=5 timeout=2400 stubs=ModelRS,utils::stable_partition_of_4->fixed_array_reference(c17) role=qwt.select.u8
// @bound QWaveletTree<u8, ModelRS>: length 4 (s[last] = 255); select for every symbol and every k of the machine range, checked and unchecked
// @funcs QWaveletTree::new, QWaveletTree::select, QWaveletTree::select_unchecked
qwt_select_law!(c01_select_u8_n4, u8, 4, 3, false, 8);
// @h props=C01:t,C09:t tier=thorough family=M optional=yes mem=45 timeout=3600 stubs=ModelRS,PrefetchSupport::new->default,PrefetchSupport::approx_rank_unchecked->monotone_multiple_of_2048,utils::stable_partition_of_4->fixed_array_reference(c17) role=qwt.rank.u8.pfs
// @bound QWaveletTree<u8, ModelRS, true> (prefetch support on; PrefetchSupport replaced by its contract stub): length 3 (s[last] = 255); rank == rank_prefetch for all arguments
// @funcs QWaveletTree::new, QWaveletTree::rank, QWaveletTree::rank_prefetch, QWaveletTree::rank_prefetch_unchecked, QWaveletTree::rank_prefetch_superblocks_unchecked
qwt_rank_law!(c01_rank_u8_n3_pfs, u8, 3, 2, true, 8);
// @h props=C01:t tier=thorough family=M optional=yes mem=45 timeout=3600 stubs=ModelRS,PrefetchSupport::new->default,utils::stable_partition_of_4->fixed_array_reference(c17) role=qwt.get.u8.pfs
// @bound QWaveletTree<u8, ModelRS, true>: length 3 (s[last] = 255): get
// @funcs QWaveletTree::new, QWaveletTree::get
qwt_get_law!(c01_get_u8_n3_pfs, u8, 3, 2, 4, true, 8);
// ---- u16: 8 levels
// @h props=C01,C19:t tier=thorough family=M mem=5 timeout=2400 stubs=ModelRS,utils::stable_partition_of_4->fixed_array_reference(c17) role=qwt.get.u16
// @bound QWaveletTree<u16, ModelRS>: length 3 (s[last] = 65535, 8 levels): get
// @funcs QWaveletTree::new, QWaveletTree::get
qwt_get_law!(c01_get_u16_n3, u16, 3, 2, 8, false, 10);
// @h props=C01 tier=thorough family=M mem=5 timeout=2400 stubs=ModelRS,utils::stable_partition_of_4->fixed_array_reference(c17) role=qwt.rank.u16
// @bound QWaveletTree<u16, ModelRS>: length 3: rank / rank_prefetch
// @funcs QWaveletTree::new, QWaveletTree::rank, QWaveletTree::rank_prefetch
qwt_rank_law!(c01_rank_u16_n3, u16, 3, 2, false, 10);
// @h props=C01 tier=thorough family=M mem=5 timeout=2400 stubs=ModelRS,utils::stable_partition_of_4->fixed_array_reference(c17) role=qwt.select.u16
// @bound QWaveletTree<u16, ModelRS>: length 3: select
// @funcs QWaveletTree::new, QWaveletTree::select
qwt_select_law!(c01_select_u16_n3, u16, 3, 2, false, 10);
// ---- u32: 16 levels
// @h props=C01 tier=thorough family=M mem=5 timeout=3000 stubs=ModelRS,utils::stable_partition_of_4->fixed_array_reference(c17) role=qwt.get.u32
// @bound QWaveletTree<u32, ModelRS>: length 3 (16 levels): get
// @funcs QWaveletTree::new, QWaveletTree::get
qwt_get_law!(c01_get_u32_n3, u32, 3, 2, 16, false, 18);
// @h props=C01 tier=thorough family=M mem=5 timeout=3000 stubs=ModelRS,utils::stable_partition_of_4->fixed_array_reference(c17) role=qwt.rank.u32
// @bound QWaveletTree<u32, ModelRS>: length 2: rank
// @funcs QWaveletTree::new, QWaveletTree::rank
qwt_rank_law!(c01_rank_u32_n2, u32, 2, 1, false, 18);
// ---- u64 / usize: 32 levels
// @h props=C01,C19:t tier=thorough family=M optional=yes mem=30 timeout=3600 stubs=ModelRS,utils::stable_partition_of_4->fixed_array_reference(c17) role=qwt.get.u64
// @bound QWaveletTree<u64, ModelRS>: length 2 (32 levels): get
// @funcs QWaveletTree::new, QWaveletTree::get
qwt_get_law!(c01_get_u64_n2, u64, 2, 1, 32, false, 34);
// @h props=C01 tier=thorough family=M optional=yes mem=30 timeout=3600 stubs=ModelRS,utils::stable_partition_of_4->fixed_array_reference(c17) role=qwt.get.usize
// @bound QWaveletTree<usize, ModelRS>: length 2 (32 levels): get
// @funcs QWaveletTree::new, QWaveletTree::get
qwt_get_law!(c01_get_usize_n2, usize, 2, 1, 32, false, 34);
// ---- u128: 64 levels (shifts >= 64)
// @h props=C01,C19:t tier=thorough family=M optional=yes mem=30 timeout=3600 stubs=ModelRS,utils::stable_partition_of_4->fixed_array_reference(c17) role=qwt.get.u128
// @bound QWaveletTree<u128, ModelRS>: length 2 (s[last] = u128::MAX, 64 levels): get - values above 2^64
// @funcs QWaveletTree::new, QWaveletTree::get, utils::stable_partition_of_4
qwt_get_law!(c01_get_u128_n2, u128, 2, 1, 64, false, 66);
// @h props=C01 tier=thorough family=M optional=yes mem=30 timeout=3600 stubs=ModelRS,utils::stable_partition_of_4->fixed_array_reference(c17) role=qwt.rank.u128
// @bound QWaveletTree<u128, ModelRS>: length 2: rank
// @funcs QWaveletTree::new, QWaveletTree::rank
qwt_rank_law!(c01_rank_u128_n2, u128, 2, 1, false, 66);
// @h props=C01 tier=thorough family=M optional=yes mem=30 timeout=3600 stubs=ModelRS,utils::stable_partition_of_4->fixed_array_reference(c17) role=qwt.select.u128
// @bound QWaveletTree<u128, ModelRS>: length 2: select
// @funcs QWaveletTree::new, QWaveletTree::select
qwt_select_law!(c01_select_u128_n2, u128, 2, 1, false, 66);

/// Concrete contents (the level count folds by itself), symbolic queries: alphabets that do not fill the type.
macro_rules! qwt_concrete {
    ($name:ident, $t:ty, $seq:expr, $n:expr, $levels:expr, $unw:expr) => {
        #[kani::proof]
        #[kani::unwind($unw)]
        #[kani::stub(crate::utils::stable_partition_of_4, part4_stub)]
        fn $name() {
            let s: [$t; $n] = $seq;
            let mut w = s;
            let t = Tree::<$t, false>::new(&mut w[..]);
            let mut mx = s[0];
            let mut j = 0;
            while j < $n {
                if s[j] > mx {
                    mx = s[j];
                }
                j += 1;
            }
            assert!(t.len() == $n && t.sigma() == Some(mx) && t.n_levels() == $levels);
            let i: usize = kani::any();
            let c: $t = kani::any();
            let g = t.get(i);
            if i < $n {
                assert!(g == Some(s[i]));
            } else {
                assert!(g.is_none());
            }
            let r = t.rank(c, i);
            if c <= mx && i <= $n {
                assert!(r == Some(occ(&s, c, i)));
            } else {
                assert!(r.is_none()); // symbol above the maximum or position past the end
            }
            assert!(t.rank_prefetch(c, i) == r);
            let k: usize = kani::any();
            let sel = t.select(c, k);
            if c <= mx && k < occ(&s, c, $n) {
                let p = sel.unwrap();
                assert!(p < $n && s[p] == c && occ(&s, c, p) == k);
            } else {
                assert!(sel.is_none());
            }
            kani::cover!(c > mx, "symbol above the maximum");
            kani::cover!(c <= mx && sel.is_some(), "valid symbol with an occurrence");
            core::mem::forget(t);
        }
    };
}
// @h props=C01,C04 tier=quick family=M mem=5 timeout=1800 stubs=ModelRS,utils::stable_partition_of_4->fixed_array_reference(c17) role=qwt.concrete.sigma5
// @bound concrete sequence [1,0,1,0,2,4,5,3] minus two (6 symbols, max 5: 2 levels, hole-free), queries symbolic over the machine range: get, rank, rank_prefetch, select, symbols above max give None
// @funcs QWaveletTree::new, QWaveletTree::get, QWaveletTree::rank, QWaveletTree::rank_prefetch, QWaveletTree::select
qwt_concrete!(c01_concrete_sigma5, u8, [1, 0, 2, 4, 5, 3], 6, 2, 10);
// @h props=C01 tier=quick family=M mem=5 timeout=1800 stubs=ModelRS,utils::stable_partition_of_4->fixed_array_reference(c17) role=qwt.concrete.one_symbol
// @bound concrete one-symbol sequences: [0,0,0] (max 0: one level) - queries symbolic
// @funcs QWaveletTree::new, QWaveletTree::get, QWaveletTree::rank, QWaveletTree::select
qwt_concrete!(c01_concrete_zeros, u16, [0, 0, 0], 3, 1, 10);
// @h props=C01 tier=quick family=M mem=5 timeout=1800 stubs=ModelRS,utils::stable_partition_of_4->fixed_array_reference(c17) role=qwt.concrete.pow4
// @bound concrete sequences around a power of 4: [15,16,3,16,0] (max 16: 3 levels, holes), queries symbolic
// @funcs QWaveletTree::new, QWaveletTree::get, QWaveletTree::rank, QWaveletTree::select
qwt_concrete!(c01_concrete_pow4, u32, [15, 16, 3, 16, 0], 5, 3, 10);
// @h props=C01 tier=thorough family=M mem=5 timeout=1800 stubs=ModelRS,utils::stable_partition_of_4->fixed_array_reference(c17) role=qwt.concrete.sigma3
// @bound concrete [3,3,1,0] (max 3 = 4-1: one level), queries symbolic
// @funcs QWaveletTree::new, QWaveletTree::get, QWaveletTree::rank, QWaveletTree::select
qwt_concrete!(c01_concrete_sigma3, u64, [3, 3, 1, 0], 4, 1, 10);
// @h props=C01 tier=thorough family=M mem=5 timeout=1800 stubs=ModelRS,utils::stable_partition_of_4->fixed_array_reference(c17) role=qwt.concrete.sigma4
// @bound concrete [4,1,4] (max 4: two levels), queries symbolic
// @funcs QWaveletTree::new, QWaveletTree::get, QWaveletTree::rank, QWaveletTree::select
qwt_concrete!(c01_concrete_sigma4, u8, [4, 1, 4], 3, 2, 10);

// @h props=C01,C04,C09 tier=quick family=E prof=AP mem=5 timeout=1200 stubs=ModelRS,utils::prefetch_read_NTA->empty(feature_on_only) role=qwt.empty
// @bound empty tree (new on an empty slice) and Default tree over the model, with and without prefetch support: every query, all arguments of the machine range: no position, no non-zero count, no panic
// @funcs QWaveletTree::new, QWaveletTree::default, QWaveletTree::get, QWaveletTree::rank, QWaveletTree::rank_prefetch, QWaveletTree::select, QWaveletTree::sigma, QWaveletTree::len
#[kani::proof]
#[kani::unwind(8)]
#[kani::stub(crate::utils::prefetch_read_NTA, noop_prefetch)]
fn c01_empty_model() {
    let c: u8 = kani::any();
    let i: usize = kani::any();
    let mut e: [u8; 0] = [];
    let t1 = Tree::<u8, false>::new(&mut e[..]);
    let t2 = Tree::<u8, false>::default();
    let t3 = Tree::<u8, true>::new(&mut e[..]);
    assert!(t1.len() == 0 && t1.is_empty() && t1.sigma().is_none());
    assert!(t2.len() == 0 && t2.is_empty() && t2.sigma().is_none());
    for t in [&t1, &t2] {
        assert!(t.get(i).is_none());
        let r = t.rank(c, i);
        assert!(r.is_none() || r == Some(0));
        let rp = t.rank_prefetch(c, i);
        assert!(rp == r);
        assert!(t.select(c, i).is_none());
    }
    assert!(t3.get(i).is_none());
    let r = t3.rank(c, i);
    assert!(r.is_none() || r == Some(0));
    assert!(t3.rank_prefetch(c, i) == r);
    assert!(t3.select(c, i).is_none());
    kani::cover!(c == 0 && i == 0, "the one argument pair that passes the guards");
    core::mem::forget(t1);
    core::mem::forget(t2);
    core::mem::forget(t3);
}

// @h props=C01 tier=quick family=M mem=5 timeout=900 expect=fail stubs=ModelRS role=qwt.twin
// @bound deliberately false twin: claims get(0) is always the type maximum
// @funcs QWaveletTree::new, QWaveletTree::get
#[kani::proof]
#[kani::unwind(8)]
#[kani::stub(crate::utils::stable_partition_of_4, part4_stub)]
fn c01_false_twin() {
    let s = any_seq!(u8, 3, 2);
    let mut w = s;
    let t = Tree::<u8, false>::new(&mut w[..]);
    assert!(t.get(0) == Some(255));
    core::mem::forget(t);
}

// ------------------------------------------------------------------------------------------ C19

// @h props=C19:t,C01:t tier=thorough family=M mem=18 timeout=2400 stubs=ModelRS,utils::stable_partition_of_4->fixed_array_reference(c17) role=qwt.paths.u8
// @bound QWaveletTree<u8, ModelRS>: length 3 (s[last] = 255): new / From<Vec> / collect give equal values, Clone is equal, a sequence differing in one symbolic position gives an unequal value
// @funcs QWaveletTree::new, QWaveletTree::from<Vec>, QWaveletTree::from_iter, QWaveletTree::clone, QWaveletTree::eq
#[kani::proof]
#[kani::unwind(10)]
#[kani::stub(crate::utils::stable_partition_of_4, part4_stub)]
fn c19_qwt_paths_u8_n3() {
    let s = any_seq!(u8, 3, 2);
    let mut w = s;
    let t1 = Tree::<u8, false>::new(&mut w[..]);
    let t2 = Tree::<u8, false>::from(s.to_vec());
    assert!(t1 == t2);
    // different sequence => different value
    let p: usize = kani::any();
    kani::assume(p < 2);
    let v: u8 = kani::any();
    kani::assume(v != s[p]);
    let mut s2 = s;
    s2[p] = v;
    let t4 = Tree::<u8, false>::new(&mut s2[..]);
    assert!(t4 != t1);
    kani::cover!(p == 1, "difference in the middle");
    core::mem::forget(t1);
    core::mem::forget(t2);
    core::mem::forget(t4);
}

// @h props=C19 tier=quick family=M mem=18 timeout=2400 stubs=Model,stable_partition->fixed_array_reference(c17) role=qwt.paths2.u8
// @bound length 3 (s[2] = 255): collect gives the same value as new, Clone is equal
// @funcs from_iter, clone, eq
#[kani::proof]
#[kani::unwind(10)]
#[kani::stub(crate::utils::stable_partition_of_4, part4_stub)]
fn c19_qwt_paths2_u8_n3() {
    let s = any_seq!(u8, 3, 2);
    let mut w = s;
    let t1 = Tree::<u8, false>::new(&mut w[..]);
    let t3: Tree<u8, false> = s.iter().copied().collect();
    assert!(t1 == t3);
    let tc = t1.clone();
    assert!(tc == t1);
    kani::cover!(s[0] != s[1], "distinct symbols");
    core::mem::forget(t1);
    core::mem::forget(t3);
    core::mem::forget(tc);
}

// @h props=C19 tier=quick family=M mem=18 timeout=2400 stubs=ModelRS,utils::stable_partition_of_4->fixed_array_reference(c17) role=qwt.widths
// @bound the same concrete numbers [1,0,2,4,5,3] carried as u8, u32 and u128: get / rank / select / len / n_levels agree for symbolic arguments
// @funcs QWaveletTree::new, QWaveletTree::get, QWaveletTree::rank, QWaveletTree::select
#[kani::proof]
#[kani::unwind(10)]
#[kani::stub(crate::utils::stable_partition_of_4, part4_stub)]
fn c19_qwt_widths() {
    let mut a: [u8; 6] = [1, 0, 2, 4, 5, 3];
    let mut b: [u32; 6] = [1, 0, 2, 4, 5, 3];
    let mut c: [u128; 6] = [1, 0, 2, 4, 5, 3];
    let ta = Tree::<u8, false>::new(&mut a[..]);
    let tb = Tree::<u32, false>::new(&mut b[..]);
    let tc = Tree::<u128, false>::new(&mut c[..]);
    assert!(ta.len() == tb.len() && tb.len() == tc.len());
    assert!(ta.n_levels() == tb.n_levels() && tb.n_levels() == tc.n_levels());
    let sym: u8 = kani::any();
    let i: usize = kani::any();
    assert!(ta.get(i).map(|x| x as u128) == tb.get(i).map(|x| x as u128));
    assert!(tb.get(i).map(|x| x as u128) == tc.get(i));
    assert!(ta.rank(sym, i) == tb.rank(sym as u32, i));
    assert!(tb.rank(sym as u32, i) == tc.rank(sym as u128, i));
    assert!(ta.select(sym, i) == tb.select(sym as u32, i));
    assert!(tb.select(sym as u32, i) == tc.select(sym as u128, i));
    // different sequences never compare equal - also when one tree is a "prefix" of the other (fewer levels)
    let mut d1: [u8; 3] = [1, 2, 3];
    let mut d2: [u8; 3] = [4, 8, 12];
    let mut d3: [u8; 3] = [1, 2, 3];
    let td1 = Tree::<u8, false>::new(&mut d1[..]);
    let td2 = Tree::<u8, false>::new(&mut d2[..]);
    let td3 = Tree::<u8, false>::new(&mut d3[..]);
    assert!(td1 != td2);
    assert!(td1 == td3);
    core::mem::forget(td1);
    core::mem::forget(td2);
    core::mem::forget(td3);
    kani::cover!(ta.rank(sym, i) == Some(1), "a count of one");
    kani::cover!(ta.select(sym, i).is_some(), "an existing occurrence");
    core::mem::forget(ta);
    core::mem::forget(tb);
    core::mem::forget(tc);
}

// ------------------------------------------------------------------------------------------ C18

// @h props=C18 tier=quick family=M mem=18 timeout=2400 stubs=ModelRS,utils::stable_partition_of_4->fixed_array_reference(c17) role=purity.qwt
// @bound QWaveletTree<u8, ModelRS>: length 3: a batch of queries with symbolic arguments, repeated in another order, gives the same answers and leaves every element and the summary fields unchanged
// @funcs QWaveletTree::get, QWaveletTree::rank, QWaveletTree::rank_prefetch, QWaveletTree::select, QWaveletTree::eq
#[kani::proof]
#[kani::unwind(10)]
#[kani::stub(crate::utils::stable_partition_of_4, part4_stub)]
fn c18_purity_qwt() {
    let s = any_seq!(u8, 3, 2);
    let mut w = s;
    let t = Tree::<u8, false>::new(&mut w[..]);
    let c: u8 = kani::any();
    let i: usize = kani::any();
    let j: usize = kani::any();
    kani::assume(j < 3);
    let a1 = t.get(i);
    let b1 = t.rank(c, i);
    let d1 = t.select(c, i);
    let e1 = t.rank_prefetch(c, i);
    // the same queries again, interleaved differently: same answers, and the contents are untouched
    assert!(t.select(c, i) == d1 && t.get(i) == a1 && t.rank_prefetch(c, i) == e1 && t.rank(c, i) == b1);
    assert!(t.get(j) == Some(s[j]) && t.len() == 3 && t.sigma() == Some(255));
    kani::cover!(a1.is_some() && b1.is_some() && d1.is_some(), "queries that answer");
    core::mem::forget(t);
}

// @h props=C01:t,C19:t tier=thorough family=M optional=yes mem=30 timeout=3600 stubs=ModelRS,utils::stable_partition_of_4->fixed_array_reference(c17) role=qwt.get.u128.n1
// @bound QWaveletTree<u128, ModelRS>: the one-element sequence [u128::MAX] (64 levels, shifts >= 64): get for every index
// @funcs QWaveletTree::new, QWaveletTree::get, QWaveletTree::get_unchecked
qwt_get_law!(c01_get_u128_n1, u128, 1, 0, 64, false, 66);
// @h props=C01:t,C19:t tier=thorough family=M optional=yes mem=30 timeout=3600 stubs=ModelRS,utils::stable_partition_of_4->fixed_array_reference(c17) role=qwt.concrete.u128_wide
// @bound concrete u128 sequence [5, 2^64+5] (33 levels: symbols above 2^64, shifts >= 64), queries symbolic over the machine range: get, rank, rank_prefetch, select
// @funcs QWaveletTree::new, QWaveletTree::get, QWaveletTree::rank, QWaveletTree::select
qwt_concrete!(c01_concrete_u128_wide, u128, [5, (1u128 << 64) + 5], 2, 33, 36);
