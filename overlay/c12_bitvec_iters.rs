//! C12 (bit-vector part) — iterators over bits and over positions of ones/zeros.
//! One-step laws from an ARBITRARY reachable iterator state (private fields set directly), so that
//! call histories of any length are covered by induction on the number of calls.
use super::verif_bv_common::*;
use super::*;

fn noop_eprint(_args: core::fmt::Arguments<'_>) {}

macro_rules! iter_step {
    ($name:ident, $l:expr, $mk:ident) => {
        #[kani::proof]
        #[kani::unwind(18)]
        fn $name() {
            let (words, n) = any_words::<$l>();
            let bv = $mk::<$l>(&words, n);
            let mut it = bv.iter();
            assert!(it.i == 0 && it.len() == n);
            // arbitrary reachable state: i in 0..=n
            let i0: usize = kani::any();
            kani::assume(i0 <= n);
            it.i = i0;
            assert!(it.len() == n - i0);
            let r = it.next();
            kani::cover!($l == 0 || i0 + 1 == n, "last element yielded");
            if i0 < n {
                assert!(r == Some(bit(&words, i0)));
                assert!(it.i == i0 + 1);
                assert!(it.len() == n - i0 - 1);
            } else {
                // exhausted: None now and for ever, remaining length 0
                assert!(r.is_none());
                assert!(it.len() == 0);
                assert!(it.next().is_none());
                assert!(it.len() == 0);
                kani::cover!(true, "exhausted");
            }
            core::mem::forget(bv);
        }
    };
}
// @h props=C12,C08,C04:t tier=quick family=A mem=5 timeout=1200 role=bitvector.iter
// @bound BitVector::iter on any valid state of 1..=512 bits, arbitrary iterator position 0..=n, one next() (+1 after exhaustion), len() before and after
// @funcs BitVector::iter, BitVectorIter::next, BitVectorIter::len, BitVectorMut::get_bit_slice
iter_step!(c12_bv_iter_step_imm_l1, 1, mk_imm);
// @h props=C12,C08 tier=quick family=A mem=5 timeout=1200 role=bitvectormut.iter
// @bound BitVectorMut::iter on any valid state of 513..=1024 bits
// @funcs BitVectorMut::iter, BitVectorIter::next, BitVectorIter::len
iter_step!(c12_bv_iter_step_mut_l2, 2, mk_mut);
// @h props=C12,C08,C04 tier=quick family=E mem=5 timeout=1200 role=bitvector.iter
// @bound empty BitVector
// @funcs BitVector::iter, BitVectorIter::next, BitVectorIter::len
iter_step!(c12_bv_iter_step_imm_l0, 0, mk_imm);

macro_rules! into_iter_step {
    ($name:ident, $l:expr, $mk:ident) => {
        #[kani::proof]
        #[kani::unwind(18)]
        fn $name() {
            let (words, n) = any_words::<$l>();
            let bv = $mk::<$l>(&words, n);
            let mut it = bv.into_iter();
            assert!(it.i == 0 && it.len() == n);
            // reachable states: next() advances the counter even after the end; up to 3 calls past it
            let i0: usize = kani::any();
            kani::assume(i0 <= n + 3);
            it.i = i0;
            let r = it.next();
            if i0 < n {
                assert!(r == Some(bit(&words, i0)));
                assert!(it.len() == n - i0 - 1);
            } else {
                assert!(r.is_none());
                assert!(it.len() == 0); // C12: a reported remaining length is 0 once None was returned
                assert!(it.next().is_none());
                assert!(it.len() == 0);
                kani::cover!(i0 == n + 3, "several calls after exhaustion");
            }
            core::mem::forget(it);
        }
    };
}
// @h props=C12,C08,C04 tier=quick family=A mem=5 timeout=1200 role=bitvector.into_iter
// @bound BitVector::into_iter on any valid state of 1..=512 bits, iterator counter 0..=n+3, next() and len()
// @funcs BitVector::into_iter, BitVectorIntoIter::next, BitVectorIntoIter::len, BitVector::get
into_iter_step!(c12_bv_into_iter_step_imm_l1, 1, mk_imm);
// @h props=C12,C08,C04 tier=quick family=A mem=5 timeout=1200 role=bitvectormut.into_iter
// @bound BitVectorMut::into_iter (converts to BitVector) on any valid state of 1..=512 bits
// @funcs BitVectorMut::into_iter, BitVectorIntoIter::next, BitVectorIntoIter::len
into_iter_step!(c12_bv_into_iter_step_mut_l1, 1, mk_mut);
// @h props=C12,C04 tier=quick family=E mem=5 timeout=1200 role=bitvector.into_iter
// @bound empty BitVector
// @funcs BitVector::into_iter, BitVectorIntoIter::next, BitVectorIntoIter::len
into_iter_step!(c12_bv_into_iter_step_imm_l0, 0, mk_imm);

/// `first next()` of a positions iterator started at `p` is the smallest position q >= p holding BIT (q < n).
/// `t` is one symbolic witness position: the solver quantifies over it.
fn first_law<const BIT: bool>(words: &[u64; W], n: usize, p: usize, r: Option<usize>, t: usize) {
    match r {
        Some(q) => {
            assert!(q >= p && q < n);
            assert!(bit(words, q) == BIT);
            if t >= p && t < q {
                assert!(bit(words, t) != BIT);
            }
        }
        None => {
            if t >= p && t < n {
                assert!(bit(words, t) != BIT);
            }
        }
    }
}

macro_rules! positions_law {
    ($name:ident, $l:expr, $mk:ident, $bit:expr, $ctor:ident, $ctor_pos:ident) => {
        #[kani::proof]
        #[kani::unwind(20)]
        #[kani::stub(std::io::_eprint, noop_eprint)]
        fn $name() {
            let (words, n) = any_words::<$l>();
            let bv = $mk::<$l>(&words, n);
            let t: usize = kani::any();
            kani::assume(t < 512 * $l + 1);
            // from the start
            let mut it0 = bv.$ctor();
            let r0 = it0.next();
            first_law::<$bit>(&words, n, 0, r0, t);
            // from an arbitrary position (past the end included)
            let p: usize = kani::any();
            let mut it = bv.$ctor_pos(p);
            let r = it.next();
            first_law::<$bit>(&words, n, p, r, t);
            kani::cover!($l == 0 || (r.is_some() && r.unwrap() % 64 == 63), "hit on the last bit of a word");
            kani::cover!($l == 0 || (r.is_none() && p < n), "no hit although p is inside");
            kani::cover!(r.is_none() && p == usize::MAX, "start at usize::MAX");
            match r {
                Some(q) => {
                    // chain: what follows q is what an iterator started at q+1 yields first
                    let r2 = it.next();
                    let mut it2 = bv.$ctor_pos(q + 1);
                    assert!(r2 == it2.next());
                }
                None => {
                    assert!(it.next().is_none());
                }
            }
            core::mem::forget(bv);
        }
    };
}
// @h props=C12,C08,C07,C04 tier=quick family=A mem=5 timeout=1800 stubs=std::io::_eprint->empty(dbg!_in_with_pos) role=bitvector.ones
// @bound BitVector::ones / ones_with_pos(p) on any valid state of 1..=512 bits, p over all usize: first-hit law, chain law next == with_pos(q+1).next, None is sticky
// @funcs BitVector::ones, BitVector::ones_with_pos, BitVectorBitPositionsIter::new, BitVectorBitPositionsIter::with_pos, BitVectorBitPositionsIter::next
positions_law!(c12_ones_imm_l1, 1, mk_imm, true, ones, ones_with_pos);
// @h props=C12,C08,C07,C04 tier=quick family=A mem=5 timeout=1800 stubs=std::io::_eprint->empty(dbg!_in_with_pos) role=bitvector.zeros
// @bound BitVector::zeros / zeros_with_pos(p) on any valid state of 1..=512 bits (padding after the last bit must not be reported)
// @funcs BitVector::zeros, BitVector::zeros_with_pos, BitVectorBitPositionsIter::with_pos, BitVectorBitPositionsIter::next
positions_law!(c12_zeros_imm_l1, 1, mk_imm, false, zeros, zeros_with_pos);
// @h props=C12,C08 tier=quick family=A mem=5 timeout=1800 stubs=std::io::_eprint->empty(dbg!_in_with_pos) role=bitvectormut.ones
// @bound BitVectorMut::ones / ones_with_pos on any valid state of 1..=512 bits
// @funcs BitVectorMut::ones, BitVectorMut::ones_with_pos, BitVectorBitPositionsIter::next
positions_law!(c12_ones_mut_l1, 1, mk_mut, true, ones, ones_with_pos);
// @h props=C12,C08 tier=thorough family=A mem=5 timeout=1800 stubs=std::io::_eprint->empty(dbg!_in_with_pos) role=bitvectormut.zeros
// @bound BitVectorMut::zeros / zeros_with_pos on any valid state of 1..=512 bits
// @funcs BitVectorMut::zeros, BitVectorMut::zeros_with_pos, BitVectorBitPositionsIter::next
positions_law!(c12_zeros_mut_l1, 1, mk_mut, false, zeros, zeros_with_pos);
// @h props=C12,C08,C07 tier=thorough family=A mem=5 timeout=2400 stubs=std::io::_eprint->empty(dbg!_in_with_pos) role=bitvector.ones
// @bound BitVector::ones / ones_with_pos on any valid state of 513..=1024 bits
// @funcs BitVector::ones, BitVector::ones_with_pos, BitVectorBitPositionsIter::next
positions_law!(c12_ones_imm_l2, 2, mk_imm, true, ones, ones_with_pos);
// @h props=C12,C08,C07 tier=thorough family=A mem=5 timeout=2400 stubs=std::io::_eprint->empty(dbg!_in_with_pos) role=bitvector.zeros
// @bound BitVector::zeros / zeros_with_pos on any valid state of 513..=1024 bits
// @funcs BitVector::zeros, BitVector::zeros_with_pos, BitVectorBitPositionsIter::next
positions_law!(c12_zeros_imm_l2, 2, mk_imm, false, zeros, zeros_with_pos);
// @h props=C12,C08,C04 tier=quick family=E mem=5 timeout=1200 stubs=std::io::_eprint->empty(dbg!_in_with_pos) role=bitvector.ones
// @bound empty BitVector: ones / ones_with_pos(p), p over all usize
// @funcs BitVector::ones, BitVector::ones_with_pos, BitVectorBitPositionsIter::next
positions_law!(c12_ones_imm_l0, 0, mk_imm, true, ones, ones_with_pos);
// @h props=C12,C08,C04 tier=quick family=E mem=5 timeout=1200 stubs=std::io::_eprint->empty(dbg!_in_with_pos) role=bitvector.zeros
// @bound empty BitVector: zeros / zeros_with_pos(p)
// @funcs BitVector::zeros, BitVector::zeros_with_pos, BitVectorBitPositionsIter::next
positions_law!(c12_zeros_imm_l0, 0, mk_imm, false, zeros, zeros_with_pos);

// @h props=C12 tier=quick family=A mem=6 timeout=600 expect=fail role=bitvector.iter.twin
// @bound deliberately false twin: claims the first hit of ones() is always position 0
// @funcs BitVector::ones, BitVectorBitPositionsIter::next
#[kani::proof]
#[kani::unwind(20)]
fn c12_bitvec_false_twin() {
    let (words, n) = any_words::<1>();
    let bv = mk_imm::<1>(&words, n);
    let mut it = bv.ones();
    assert!(it.next() == Some(0));
    core::mem::forget(bv);
}
