//! C05 (directory layer) — SuperblockPlain records and the RSSupportPlain block-level stages on
//! assembled directories. Child module of `qvector::rs_qvector::rs_support_plain`.
use super::*;

// @h props=C05,C04:t tier=quick family=K mem=6 timeout=1800 role=rssupport.superblock
// @bound superblock counters below 2^44, block counters below 2^12 (asserted by the code), every block id and symbol: pack/unpack round trip, get_rank, untouched fields
// @funcs SuperblockPlain::new, SuperblockPlain::set_block_counters, SuperblockPlain::get_rank, SuperblockPlain::get_block_counter, SuperblockPlain::get_superblock_counter
#[kani::proof]
#[kani::unwind(10)]
fn c05_superblock_pack_law() {
    let sbc: [usize; 4] = kani::any();
    kani::assume(sbc[0] < (1 << 44) && sbc[1] < (1 << 44) && sbc[2] < (1 << 44) && sbc[3] < (1 << 44));
    let mut sb = SuperblockPlain::new(&sbc);
    let c: u8 = kani::any();
    kani::assume(c < 4);
    assert!(sb.get_superblock_counter(c) == sbc[c as usize]);
    assert!(sb.get_rank(c, 0) == sbc[c as usize]);
    // two block records written in increasing order, as the constructor does
    let b1: usize = kani::any();
    let b2: usize = kani::any();
    kani::assume(b1 < 8 && b2 < 8 && b1 < b2);
    let c1: [usize; 4] = kani::any();
    let c2: [usize; 4] = kani::any();
    kani::assume(c1[0] < 4096 && c1[1] < 4096 && c1[2] < 4096 && c1[3] < 4096);
    kani::assume(c2[0] < 4096 && c2[1] < 4096 && c2[2] < 4096 && c2[3] < 4096);
    sb.set_block_counters(b1, &c1);
    sb.set_block_counters(b2, &c2);
    assert!(sb.get_superblock_counter(c) == sbc[c as usize]);
    let e1 = if b1 == 0 { 0 } else { c1[c as usize] };
    assert!(sb.get_block_counter(c, b1) == e1);
    assert!(sb.get_block_counter(c, b2) == c2[c as usize]);
    assert!(sb.get_rank(c, b1) == sbc[c as usize] + e1);
    assert!(sb.get_rank(c, b2) == sbc[c as usize] + c2[c as usize]);
    let other: usize = kani::any();
    kani::assume(other < 8 && other != b1 && other != b2);
    assert!(sb.get_block_counter(c, other) == 0);
    kani::cover!(b2 == 7 && c2[3] == 4095 && c == 3, "last field, largest counter, last symbol");
    kani::cover!(b1 == 0, "first block (not stored)");
}

fn counters_of(cum: &[usize; 9], base: usize) -> u128 {
    let mut m: u128 = (base as u128) << 84;
    let mut j = 1;
    while j < 8 {
        m |= ((cum[j] - cum[0]) as u128) << ((j - 1) * 12);
        j += 1;
    }
    m
}

// @h props=C05,C04:t tier=quick family=K mem=6 timeout=1800 role=rssupport.block_predecessor
// @bound one superblock with arbitrary non-decreasing block counters (< 4096), every symbol, every target >= 1 up to the last counter: largest block whose counter is below the target
// @funcs SuperblockPlain::block_predecessor
#[kani::proof]
#[kani::unwind(10)]
fn c05_block_predecessor_law() {
    let inc: [u16; 8] = kani::any();
    let mut cum = [0usize; 9];
    let mut b = 0;
    while b < 8 {
        kani::assume(inc[b] <= 512);
        cum[b + 1] = cum[b] + inc[b] as usize;
        b += 1;
    }
    kani::assume(cum[7] < 4096);
    let c: u8 = kani::any();
    kani::assume(c < 4);
    let mut sb = SuperblockPlain::default();
    sb.counters[c as usize] = counters_of(&cum, 0);
    let target: usize = kani::any();
    kani::assume(target >= 1 && target <= cum[8]); // the target-th occurrence lies in this superblock
    let (blk, cnt) = sb.block_predecessor(c, target);
    assert!(blk < 8);
    assert!(cnt == cum[blk]);
    assert!(cum[blk] < target && target <= cum[blk + 1]);
    kani::cover!(blk == 7, "last block");
    kani::cover!(blk == 0, "first block");
}

/// Directory as `RSSupportPlain::new` lays it out for NB full blocks of B symbols (NB <= 8*NSB-? ) with
/// arbitrary per-block populations of symbol c: superblock counter = occurrences before the superblock,
/// block counters relative to it, one sentinel block record after the last block, a last superblock
/// record carrying the totals when the length is a multiple of the superblock size.
macro_rules! select_block_stage {
    ($name:ident, $bsize:expr, $nb:expr, $unw:expr, $two:expr) => {
        #[kani::proof]
        #[kani::unwind($unw)]
        fn $name() {
            const B: usize = $bsize;
            const NB: usize = $nb; // number of full blocks; the vector has exactly NB*B symbols
            const NSB: usize = NB / 8 + 1;
            let inc: [u16; NB] = kani::any();
            let mut cum = [0usize; NB + 2];
            let mut b = 0;
            while b < NB {
                kani::assume(inc[b] as usize <= B);
                cum[b + 1] = cum[b] + inc[b] as usize;
                b += 1;
            }
            cum[NB + 1] = cum[NB];
            // one select sample period (8192 occurrences) unless the two-sample variant is requested
            if $two {
                kani::assume(cum[NB] > 8192);
            } else {
                kani::assume(cum[NB] <= 8192);
            }
            let c: u8 = kani::any();
            kani::assume(c < 4);
            let mut sbs = [SuperblockPlain::default(); NSB];
            let mut s = 0;
            while s < NSB {
                let base = cum[if 8 * s <= NB { 8 * s } else { NB }];
                let mut m: u128 = (base as u128) << 84;
                let mut j = 1;
                while j < 8 {
                    let idx = 8 * s + j;
                    // blocks up to NB carry their counter, block NB+1 is the sentinel (same value), later ones stay 0
                    if idx <= NB + 1 && idx <= NB + 1 {
                        let v = cum[if idx <= NB { idx } else { NB }] - base;
                        if idx <= NB || idx == NB + 1 {
                            m |= (v as u128) << ((j - 1) * 12);
                        }
                    }
                    j += 1;
                }
                sbs[s].counters[c as usize] = m;
                s += 1;
            }
            // select sample: superblock holding the first occurrence (0 when there is none), then the guard
            let mut first = 0usize;
            let mut s = 0;
            while s < NSB {
                let lo = cum[if 8 * s <= NB { 8 * s } else { NB }];
                let hi = cum[if 8 * (s + 1) <= NB { 8 * (s + 1) } else { NB }];
                if lo < 1 && 1 <= hi {
                    first = s;
                }
                s += 1;
            }
            // second sample: superblock holding occurrence 8193 (only when there are more than 8192 occurrences)
            let mut second = 0usize;
            let mut s = 0;
            while s < NSB {
                let lo = cum[if 8 * s <= NB { 8 * s } else { NB }];
                let hi = cum[if 8 * (s + 1) <= NB { 8 * (s + 1) } else { NB }];
                if lo < 8193 && 8193 <= hi {
                    second = s;
                }
                s += 1;
            }
            let sample: Box<[u32]> = if $two {
                vec![first as u32, second as u32, (NSB - 1) as u32].into_boxed_slice()
            } else {
                vec![first as u32, (NSB - 1) as u32].into_boxed_slice()
            };
            let dummy: Box<[u32]> = vec![0u32, (NSB - 1) as u32].into_boxed_slice();
            let mut samples = [dummy.clone(), dummy.clone(), dummy.clone(), dummy];
            samples[c as usize] = sample;
            let rs = RSSupportPlain::<B> { superblocks: sbs.to_vec().into_boxed_slice(), select_samples: samples };
            let i: usize = kani::any();
            kani::assume(i >= 1 && i <= cum[NB]); // the i-th occurrence exists (documented precondition)
            let (pos, rank) = rs.select_block(c, i);
            assert!(pos % B == 0);
            let blk = pos / B;
            assert!(blk < NB);
            assert!(rank == cum[blk]);
            assert!(cum[blk] < i && i <= cum[blk + 1]);
            // rank_block at any position of that block reports the same counter
            let off: usize = kani::any();
            kani::assume(off < B);
            assert!(rs.rank_block(c, pos + off) == cum[blk]);
            kani::cover!(blk == NB - 1, "answer in the last block");
            kani::cover!(NB < 9 || blk == 8, "answer in the first block of the second superblock");
            core::mem::forget(rs);
        }
    };
}
// @h props=C05,C04:t,C10:t tier=quick family=S mem=6 timeout=2400 role=rssupport.select_block.256
// @bound B=256: assembled directory of 11 full blocks (two superblocks + sentinel) with arbitrary per-block populations of the queried symbol; every valid i; one select sample
// @funcs RSSupportPlain::select_block, RSSupportPlain::rank_block, SuperblockPlain::block_predecessor, SuperblockPlain::get_superblock_counter, SuperblockPlain::get_rank
select_block_stage!(c05_select_block_256_nb11, 256, 11, 14, false);
// @h props=C05,C04:t,C10:t tier=quick family=S mem=6 timeout=2400 role=rssupport.select_block.512
// @bound B=512: assembled directory of 11 full blocks with arbitrary per-block populations (counters up to 3584)
// @funcs RSSupportPlain::select_block, RSSupportPlain::rank_block, SuperblockPlain::block_predecessor
select_block_stage!(c05_select_block_512_nb11, 512, 11, 14, false);
// @h props=C05 tier=thorough family=S mem=6 timeout=3600 role=rssupport.select_block.256
// @bound B=256: assembled directory of 16 full blocks (length an exact multiple of the superblock size: last record carries only totals)
// @funcs RSSupportPlain::select_block, RSSupportPlain::rank_block, SuperblockPlain::block_predecessor
select_block_stage!(c05_select_block_256_nb16, 256, 16, 20, false);
// @h props=C05 tier=thorough family=S mem=6 timeout=3600 role=rssupport.select_block.512
// @bound B=512: assembled directory of 26 full blocks (four superblocks: the sqrt-step search skips)
// @funcs RSSupportPlain::select_block, RSSupportPlain::rank_block, SuperblockPlain::block_predecessor
select_block_stage!(c05_select_block_512_nb26, 512, 26, 30, false);
// @h props=C05,C10:t tier=thorough family=S mem=16 timeout=3600 role=rssupport.select_block.512.two_samples
// @bound B=512: assembled directory of 20 full blocks holding MORE than 8192 occurrences of the symbol (two select sample periods: samples = superblock of occurrence 1, of occurrence 8193, guard); every valid i
// @funcs RSSupportPlain::select_block, RSSupportPlain::rank_block, SuperblockPlain::block_predecessor
select_block_stage!(c05_select_block_512_nb20_two_samples, 512, 20, 24, true);
