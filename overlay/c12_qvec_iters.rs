//! C12 (quad-vector part) — QVectorIterator, borrowing and consuming, one step from an arbitrary state.
//! Child module of `qvector`.
use super::*;
use crate::AccessQuad;

// @h props=C12,C13,C04:t tier=quick family=A mem=6 timeout=1200 role=qvector.iter
// @bound QVector of two fully symbolic lines and symbolic length 257..=512 (assembled), iterator counter 0..=len+3, one next() (+1 after exhaustion), borrowing and consuming forms; RSQVector::iter delegates to it
// @funcs QVector::iter, QVector::into_iter, QVectorIterator::next, QVector::get
#[kani::proof]
#[kani::unwind(4)]
fn c12_qvec_iter_step() {
    let l0 = DataLine { words: kani::any() };
    let l1 = DataLine { words: kani::any() };
    let n: usize = kani::any();
    kani::assume(n > 256 && n <= 512);
    let qv = QVector { data: vec![l0, l1].into_boxed_slice(), position: 2 * n };
    let i0: usize = kani::any();
    kani::assume(i0 <= n + 3);
    let exp = if i0 < n { Some(if i0 < 256 { l0.get(i0).unwrap() } else { l1.get(i0 - 256).unwrap() }) } else { None };
    let mut it = qv.iter();
    assert!(it.i == 0);
    it.i = i0;
    let r = it.next();
    assert!(r == exp);
    assert!(r == qv.get(i0));
    if i0 >= n {
        assert!(it.next().is_none());
    }
    let mut it2 = qv.into_iter();
    assert!(it2.i == 0);
    it2.i = i0;
    assert!(it2.next() == exp);
    kani::cover!(i0 == 255, "last symbol of the first line");
    kani::cover!(i0 + 1 == n, "last symbol");
    kani::cover!(i0 == n + 3, "several calls after exhaustion");
    core::mem::forget(it2);
}
