//! C16 — reported vs. retained bytes: Inventories / DArray. Child module of `darray`.
use super::*;
use std::mem::size_of;

fn within(reported: usize, retained: usize, components: usize) -> bool {
    let tol = retained / 32 + 24 * components;
    (if reported > retained { reported - retained } else { retained - reported }) <= tol
}

// @h props=C16,C04:t tier=quick family=A mem=14 timeout=1800 role=space.darray
// @bound DArray<true> assembled from an empty bit vector and two Inventories whose three buffers have symbolic independent lengths (blocks 0..=16, sub-blocks 0..=96, overflow 0..=40)
// @funcs DArray::space_usage_byte, Inventories::space_usage_byte, Box<[T]>::space_usage_byte
#[kani::proof]
#[kani::unwind(98)]
fn c16_darray() {
    let b1 = kani::vec::any_vec::<i64, 16>();
    let s1 = kani::vec::any_vec::<u16, 96>();
    let o1 = kani::vec::any_vec::<usize, 40>();
    let b0 = kani::vec::any_vec::<i64, 16>();
    let ret = size_of::<DArray<true>>() + 8 * b1.len() + 2 * s1.len() + 8 * o1.len() + 8 * b0.len();
    let ones = Inventories::<true> {
        n_sets: kani::any(),
        block_inventory: b1.into_boxed_slice(),
        subblock_inventory: s1.into_boxed_slice(),
        overflow_positions: o1.into_boxed_slice(),
    };
    let zeros = Inventories::<false> {
        n_sets: kani::any(),
        block_inventory: b0.into_boxed_slice(),
        subblock_inventory: Vec::new().into_boxed_slice(),
        overflow_positions: Vec::new().into_boxed_slice(),
    };
    let da = DArray::<true> { bv: BitVector::default(), ones_inventories: ones, zeroes_inventories: Some(zeros), ..Default::default() };
    let rep = da.space_usage_byte();
    assert!(within(rep, ret, 8));
    kani::cover!(da.ones_inventories.subblock_inventory.len() == 96, "largest sub-block buffer");
    core::mem::forget(da);
}
