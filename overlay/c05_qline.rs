//! C05 (kernel layer) — the 512-bit quad `DataLine` (256 two-bit symbols) against its own `get`.
use super::*;
use crate::{AccessQuad, RankQuad};

fn any_line() -> DataLine {
    DataLine { words: kani::any() }
}
/// symbol at position i by the documented layout: high bit in words[i/128], low bit in words[2 + i/128]
#[inline]
fn sym(dl: &DataLine, i: usize) -> u8 {
    let hi = (dl.words[i >> 7] >> (i & 127)) & 1;
    let lo = (dl.words[2 + (i >> 7)] >> (i & 127)) & 1;
    ((hi << 1) | lo) as u8
}

// @h props=C05,C04:t,C10 tier=quick family=K prof=AB mem=4 timeout=1800 role=qvector.dataline.rank
// @bound all 2^512 lines, all four symbols, position i over 0..=256: rank(c,0)=0, rank(c,i+1)=rank(c,i)+[get(i)=c]; checked rank over all (symbol,position)
// @funcs qvector::DataLine::rank_unchecked, qvector::DataLine::rank, qvector::DataLine::normalize, qvector::DataLine::get, qvector::DataLine::get_unchecked
#[kani::proof]
fn c05_qline_rank_law() {
    let dl = any_line();
    let c: u8 = kani::any();
    kani::assume(c < 4);
    assert!(unsafe { dl.rank_unchecked(c, 0) } == 0);
    let i: usize = kani::any();
    kani::assume(i < 256);
    let g = dl.get(i).unwrap();
    assert!(g == sym(&dl, i));
    assert!(unsafe { dl.get_unchecked(i) } == g);
    let r0 = unsafe { dl.rank_unchecked(c, i) };
    let r1 = unsafe { dl.rank_unchecked(c, i + 1) };
    assert!(r1 == r0 + (g == c) as usize);
    // checked variant
    let s: u8 = kani::any();
    let p: usize = kani::any();
    let rc = dl.rank(s, p);
    if s < 4 && p <= 256 {
        assert!(rc == Some(unsafe { dl.rank_unchecked(s, p) }));
    } else {
        assert!(rc.is_none());
    }
    kani::cover!(i == 255 && g == c, "last symbol counted");
    kani::cover!(i == 127, "word boundary");
    kani::cover!(s == 255 && p == usize::MAX, "far out of range");
}

// @h props=C05 tier=quick family=K mem=4 timeout=1800 role=qvector.dataline.normalize
// @bound all lines, all four symbols: bit j of the normalized pair is set iff symbol j equals c (j over 0..256)
// @funcs qvector::DataLine::normalize
#[kani::proof]
fn c05_qline_normalize_law() {
    let dl = any_line();
    let c: u8 = kani::any();
    kani::assume(c < 4);
    let (w0, w1) = dl.normalize(c);
    let j: usize = kani::any();
    kani::assume(j < 256);
    let b = if j < 128 { (w0 >> j) & 1 } else { (w1 >> (j - 128)) & 1 };
    assert!((b == 1) == (sym(&dl, j) == c));
    kani::cover!(j == 128 && b == 1, "first symbol of the second half matches");
}

// @h props=C05,C13 tier=quick family=K mem=4 timeout=1800 role=qvector.dataline.set_symbol
// @bound any line in which position i is still empty (the builder only writes fresh positions), any byte as symbol (two low bits count), every position
// @funcs qvector::DataLine::set_symbol
#[kani::proof]
fn c05_qline_set_symbol_law() {
    let dl0 = any_line();
    let i: u8 = kani::any();
    kani::assume(sym(&dl0, i as usize) == 0);
    let s: u8 = kani::any();
    let mut dl = dl0;
    dl.set_symbol(s, i);
    let j: usize = kani::any();
    kani::assume(j < 256);
    if j == i as usize {
        assert!(sym(&dl, j) == s & 3);
    } else {
        assert!(sym(&dl, j) == sym(&dl0, j));
    }
    kani::cover!(i == 255 && s == 0xFF, "last position, byte with stray bits");
    kani::cover!(i == 128, "first position of the second half");
}

// @h props=C05 tier=quick family=K mem=4 timeout=600 expect=fail role=qvector.dataline.twin
// @bound deliberately false twin: claims rank never grows
// @funcs qvector::DataLine::rank_unchecked
#[kani::proof]
fn c05_qline_false_twin() {
    let dl = any_line();
    let i: usize = kani::any();
    kani::assume(i < 256);
    assert!(unsafe { dl.rank_unchecked(2, i + 1) } == unsafe { dl.rank_unchecked(2, i) });
}
