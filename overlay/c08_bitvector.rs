//! C08 — BitVectorMut / BitVector behave as a sequence of bits under any history.
//! Child module of `bitvector`: states are assembled from the private fields under the representation
//! invariant that every API history establishes (checked below as a post-condition of every mutator):
//!   data.len() == ceil(n_bits / 512), every bit at position >= n_bits is 0, n_ones == popcount(data).
//! One symbolic operation from an arbitrary such state + every observer on an arbitrary such state
//! covers histories of any length (induction on history length, outside the solver).
use super::*;
use super::verif_bv_common::*;

/// Post-condition shared by all mutators: representation invariant + "bit j is what the plain sequence holds".
/// `expected(j)` is evaluated at ONE symbolic position j (universally quantified by the solver).
fn check_post(bv: &BitVectorMut, n_new: usize, ones_new: usize, j: usize, expected_j: bool) {
    assert!(bv.len() == n_new);
    assert!(bv.is_empty() == (n_new == 0));
    assert!(bv.data.len() == (n_new + 511) / 512); // no missing / spare line
    assert!(bv.count_ones() == ones_new);
    assert!(bv.count_zeros() == n_new - ones_new);
    if j < n_new {
        assert!(bv.get(j) == Some(expected_j));
    } else {
        assert!(bv.get(j).is_none());
        if j < 512 * bv.data.len() {
            // padding after the last bit stays zero (whole-word reads, equality, iterators rely on it)
            assert!((bv.data[j >> 9].words[(j >> 6) & 7] >> (j & 63)) & 1 == 0);
        }
    }
}

// ------------------------------------------------------------------------------------------ mutators

macro_rules! op_push {
    ($name:ident, $l:expr) => {
        #[kani::proof]
        #[kani::unwind(18)]
        fn $name() {
            let (words, n) = any_words::<$l>();
            let mut bv = mk_mut::<$l>(&words, n);
            let ones = popcount_words(&words);
            let b: bool = kani::any();
            bv.push(b);
            let j: usize = kani::any();
            kani::assume(j < 512 * ($l + 1));
            let exp = if j < n { bit(&words, j) } else { b };
            check_post(&bv, n + 1, ones + b as usize, j, exp);
            kani::cover!(n == 512 * $l && j == n, "push opens a new line");
            kani::cover!($l == 0 || (n % 64 == 63 && j == n && b), "push sets the last bit of a word");
            core::mem::forget(bv);
        }
    };
}
// @h props=C08,C04:t tier=quick family=A mem=6 timeout=1200 role=bitvectormut.push
// @bound pre-state: empty vector; bit symbolic; observed at every position
// @funcs BitVectorMut::push, bitvector::DataLine::set_symbol, BitVectorMut::get, BitVectorMut::len, BitVectorMut::count_ones, BitVectorMut::count_zeros
op_push!(c08_push_l0, 0);
// @h props=C08,C04:t tier=quick family=A mem=6 timeout=1200 role=bitvectormut.push
// @bound pre-state: any valid state of 1..=512 bits (all contents, all lengths incl. the full line); bit symbolic; observed at every position
// @funcs BitVectorMut::push, bitvector::DataLine::set_symbol, BitVectorMut::get
op_push!(c08_push_l1, 1);
// @h props=C08 tier=thorough family=A mem=6 timeout=1800 role=bitvectormut.push
// @bound pre-state: any valid state of 513..=1024 bits
// @funcs BitVectorMut::push, bitvector::DataLine::set_symbol, BitVectorMut::get
op_push!(c08_push_l2, 2);

macro_rules! op_set {
    ($name:ident, $l:expr) => {
        #[kani::proof]
        #[kani::unwind(18)]
        fn $name() {
            let (words, n) = any_words::<$l>();
            let mut bv = mk_mut::<$l>(&words, n);
            let ones = popcount_words(&words);
            let i: usize = kani::any();
            kani::assume(i < n); // documented precondition (panics otherwise)
            let b: bool = kani::any();
            let old = bit(&words, i);
            bv.set(i, b);
            let j: usize = kani::any();
            kani::assume(j < 512 * $l);
            let exp = if j == i { b } else { bit(&words, j) };
            check_post(&bv, n, ones + b as usize - old as usize, j, exp);
            kani::cover!(old && !b && j == i, "a one is cleared");
            kani::cover!(!old && b && i + 1 == n, "last bit set");
            core::mem::forget(bv);
        }
    };
}
// @h props=C08,C04:t tier=quick family=A mem=6 timeout=1200 role=bitvectormut.set
// @bound pre-state: any valid state of 1..=512 bits; index and bit symbolic
// @funcs BitVectorMut::set, bitvector::DataLine::set_symbol, BitVectorMut::get, BitVectorMut::count_ones
op_set!(c08_set_l1, 1);
// @h props=C08 tier=thorough family=A mem=6 timeout=1800 role=bitvectormut.set
// @bound pre-state: any valid state of 513..=1024 bits; index and bit symbolic
// @funcs BitVectorMut::set, bitvector::DataLine::set_symbol
op_set!(c08_set_l2, 2);

macro_rules! op_set_bits {
    ($name:ident, $l:expr, $len:expr, $isym:expr, $i0:expr) => {
        #[kani::proof]
        #[kani::unwind(66)]
        fn $name() {
            let (words, n) = any_words::<$l>();
            let mut bv = mk_mut::<$l>(&words, n);
            let ones = popcount_words(&words);
            let i: usize = if $isym { kani::any() } else { $i0 };
            let len: usize = $len;
            let bits: u64 = kani::any();
            // documented preconditions
            kani::assume(i <= n && len <= n - i);
            kani::assume(len == 64 || (bits >> len) == 0);
            // ones overwritten: counted on the plain sequence
            let mut old_ones = 0usize;
            let mut t = 0;
            while t < $len {
                if bit(&words, i + t) {
                    old_ones += 1;
                }
                t += 1;
            }
            bv.set_bits(i, len, bits);
            let j: usize = kani::any();
            kani::assume(j < 512 * $l);
            let exp = if j >= i && j - i < len { (bits >> (j - i)) & 1 == 1 } else { bit(&words, j) };
            check_post(&bv, n, ones + bits.count_ones() as usize - old_ones, j, exp);
            kani::cover!($len == 0 || (old_ones > 0 && bits == 0), "ones overwritten by zeros");
            kani::cover!($len == 0 || (j >= i && j - i < len), "observed inside the written field");
            core::mem::forget(bv);
        }
    };
}
// @h props=C08,C04:t tier=quick family=A mem=6 timeout=1800 role=bitvectormut.set_bits
// @bound pre-state: any valid state of 1..=512 bits; len = 3, index symbolic, bits symbolic (no stray bits)
// @funcs BitVectorMut::set_bits, bitvector::DataLine::set_symbol, BitVectorMut::count_ones
op_set_bits!(c08_set_bits_l1_len3, 1, 3, true, 0);
// @h props=C08 tier=quick family=A mem=6 timeout=1800 role=bitvectormut.set_bits
// @bound pre-state: any valid state of 1..=512 bits; len = 0 (no-op), index symbolic
// @funcs BitVectorMut::set_bits
op_set_bits!(c08_set_bits_l1_len0, 1, 0, true, 0);
// @h props=C08 tier=thorough family=A mem=20 timeout=3000 role=bitvectormut.set_bits
// @bound pre-state: any valid state of 1..=512 bits; len = 64 at the unaligned index 37 (two words), bits symbolic
// @funcs BitVectorMut::set_bits, bitvector::DataLine::set_symbol
op_set_bits!(c08_set_bits_l1_len64_i37, 1, 64, false, 37);
// @h props=C08 tier=thorough family=A mem=6 timeout=2400 role=bitvectormut.set_bits
// @bound pre-state: any valid state of 513..=1024 bits; len = 64 at index 480 (across the line boundary)
// @funcs BitVectorMut::set_bits, bitvector::DataLine::set_symbol
op_set_bits!(c08_set_bits_l2_len64_i480, 2, 64, false, 480);
// @h props=C08 tier=thorough family=A mem=6 timeout=2400 role=bitvectormut.set_bits
// @bound pre-state: any valid state of 1..=512 bits; len = 9, index symbolic
// @funcs BitVectorMut::set_bits, bitvector::DataLine::set_symbol
op_set_bits!(c08_set_bits_l1_len9, 1, 9, true, 0);

macro_rules! op_append_bits {
    ($name:ident, $l:expr, $n:expr, $len:expr) => {
        #[kani::proof]
        #[kani::unwind(66)]
        fn $name() {
            let n: usize = $n;
            let words = words_at::<$l>(n);
            let mut bv = mk_mut::<$l>(&words, n);
            let ones = popcount_words(&words);
            let len: usize = $len;
            let bits: u64 = kani::any();
            kani::assume(len == 64 || (bits >> len) == 0);
            bv.append_bits(bits, len);
            let j: usize = kani::any();
            kani::assume(j < 512 * ($l + 1));
            let exp = if j < n { bit(&words, j) } else { (bits >> ((j - n) & 63)) & 1 == 1 };
            check_post(&bv, n + len, ones + bits.count_ones() as usize, j, exp);
            kani::cover!(j >= n && j < n + len || len == 0, "observed inside the appended field");
            core::mem::forget(bv);
        }
    };
}
// @h props=C08,C04:t tier=quick family=A mem=6 timeout=1200 role=bitvectormut.append_bits
// @bound pre-state: empty; 64 symbolic bits appended
// @funcs BitVectorMut::append_bits, BitVectorMut::push
op_append_bits!(c08_append_bits_n0_len64, 0, 0, 64);
// @h props=C08 tier=quick family=A mem=6 timeout=1200 role=bitvectormut.append_bits
// @bound pre-state: 449 bits (symbolic contents); 64 symbolic bits appended (crosses the 512-bit line: 449+64 = 513)
// @funcs BitVectorMut::append_bits, BitVectorMut::push
op_append_bits!(c08_append_bits_n449_len64, 1, 449, 64);
// @h props=C08 tier=quick family=A mem=6 timeout=1200 role=bitvectormut.append_bits
// @bound pre-state: 448 bits; 64 bits appended (ends exactly at the line boundary)
// @funcs BitVectorMut::append_bits, BitVectorMut::push
op_append_bits!(c08_append_bits_n448_len64, 1, 448, 64);
// @h props=C08 tier=quick family=A mem=6 timeout=1200 role=bitvectormut.append_bits
// @bound pre-state: 60 bits; 5 symbolic bits appended (crosses a word boundary)
// @funcs BitVectorMut::append_bits, BitVectorMut::push
op_append_bits!(c08_append_bits_n60_len5, 1, 60, 5);
// @h props=C08 tier=quick family=A mem=6 timeout=1200 role=bitvectormut.append_bits
// @bound pre-state: 512 bits; 0 bits and then nothing
// @funcs BitVectorMut::append_bits
op_append_bits!(c08_append_bits_n512_len0, 1, 512, 0);
// @h props=C08 tier=thorough family=A mem=6 timeout=1200 role=bitvectormut.append_bits
// @bound pre-state: 512 bits; 64 bits appended (opens the second line at once)
// @funcs BitVectorMut::append_bits, BitVectorMut::push
op_append_bits!(c08_append_bits_n512_len64, 1, 512, 64);

macro_rules! op_extend_zeros {
    ($name:ident, $l:expr, $n:expr, $k:expr) => {
        #[kani::proof]
        #[kani::unwind(18)]
        fn $name() {
            let n: usize = $n;
            let words = words_at::<$l>(n);
            let mut bv = mk_mut::<$l>(&words, n);
            let ones = popcount_words(&words);
            bv.extend_with_zeros($k);
            let j: usize = kani::any();
            kani::assume(j < 512 * ($l + 2));
            let exp = if j < n { bit(&words, j) } else { false };
            check_post(&bv, n + $k, ones, j, exp);
            // a following push must land on the right bit (two cooperating sites: line count + push)
            let b: bool = kani::any();
            bv.push(b);
            let exp2 = if j < n { bit(&words, j) } else if j == n + $k { b } else { false };
            check_post(&bv, n + $k + 1, ones + b as usize, j, exp2);
            kani::cover!(j == n + $k && b, "pushed one observed");
            core::mem::forget(bv);
        }
    };
}
// @h props=C08,C04:t tier=quick family=A mem=6 timeout=1200 role=bitvectormut.extend_with_zeros
// @bound pre-state: 200 bits (symbolic contents); growth 312 (ends exactly at the 512 boundary), then one symbolic push
// @funcs BitVectorMut::extend_with_zeros, BitVectorMut::push
op_extend_zeros!(c08_extend_zeros_n200_k312, 1, 200, 312);
// @h props=C08 tier=quick family=A mem=6 timeout=1200 role=bitvectormut.extend_with_zeros
// @bound pre-state: 511 bits; growth 2 (crosses the boundary), then one symbolic push
// @funcs BitVectorMut::extend_with_zeros, BitVectorMut::push
op_extend_zeros!(c08_extend_zeros_n511_k2, 1, 511, 2);
// @h props=C08 tier=quick family=A mem=6 timeout=1200 role=bitvectormut.extend_with_zeros
// @bound pre-state: empty; growth 512, then one symbolic push
// @funcs BitVectorMut::extend_with_zeros, BitVectorMut::push
op_extend_zeros!(c08_extend_zeros_n0_k512, 0, 0, 512);
// @h props=C08 tier=quick family=A mem=6 timeout=1200 role=bitvectormut.extend_with_zeros
// @bound pre-state: empty; growth 0, then one symbolic push
// @funcs BitVectorMut::extend_with_zeros, BitVectorMut::push
op_extend_zeros!(c08_extend_zeros_n0_k0, 0, 0, 0);
// @h props=C08 tier=thorough family=A mem=6 timeout=1200 role=bitvectormut.extend_with_zeros
// @bound pre-state: 64 bits; growth 64
// @funcs BitVectorMut::extend_with_zeros, BitVectorMut::push
op_extend_zeros!(c08_extend_zeros_n64_k64, 1, 64, 64);
// @h props=C08 tier=thorough family=A mem=6 timeout=1200 role=bitvectormut.extend_with_zeros
// @bound pre-state: 512 bits; growth 512
// @funcs BitVectorMut::extend_with_zeros, BitVectorMut::push
op_extend_zeros!(c08_extend_zeros_n512_k512, 1, 512, 512);

macro_rules! op_extend_bools {
    ($name:ident, $l:expr, $n:expr) => {
        #[kani::proof]
        #[kani::unwind(18)]
        fn $name() {
            let n: usize = $n;
            let words = words_at::<$l>(n);
            let mut bv = mk_mut::<$l>(&words, n);
            let ones = popcount_words(&words);
            let b: [bool; 3] = kani::any();
            bv.extend(b);
            let j: usize = kani::any();
            kani::assume(j < 512 * ($l + 1));
            let exp = if j < n { bit(&words, j) } else { b[(j - n) % 3] };
            check_post(&bv, n + 3, ones + b[0] as usize + b[1] as usize + b[2] as usize, j, exp);
            kani::cover!(j == n + 2 && b[2], "last appended bit observed");
            core::mem::forget(bv);
        }
    };
}
// @h props=C08,C04:t tier=quick family=A mem=6 timeout=1200 role=bitvectormut.extend_bools
// @bound pre-state: 510 bits (symbolic contents); three symbolic booleans through Extend<bool> (crosses the line boundary)
// @funcs BitVectorMut::extend<bool>, BitVectorMut::push
op_extend_bools!(c08_extend_bools_n510, 1, 510);
// @h props=C08,C19 tier=quick family=A mem=6 timeout=1200 role=bitvectormut.extend_bools
// @bound pre-state: empty; three symbolic booleans
// @funcs BitVectorMut::extend<bool>, BitVectorMut::push
op_extend_bools!(c08_extend_bools_n0, 0, 0);

// @h props=C08,C04:t tier=quick family=A mem=6 timeout=1200 role=bitvectormut.extend_positions
// @bound pre-state: 70 bits (symbolic contents); Extend<usize> with the position 69 inside the vector (last bit), then the position 75 past its end
// @funcs BitVectorMut::extend<usize>, BitVectorMut::extend_with_zeros, BitVectorMut::set
#[kani::proof]
#[kani::unwind(18)]
fn c08_extend_positions_n70() {
    let n = 70usize;
    let words = words_at::<1>(n);
    let mut bv = mk_mut::<1>(&words, n);
    let ones = popcount_words(&words);
    // positions concrete: a symbolic position makes the growth amount of extend_with_zeros symbolic
    let p: usize = 69;
    bv.extend([p]);
    let j: usize = kani::any();
    kani::assume(j < 1024);
    let exp = if j == p { true } else { bit(&words, j) };
    let ones1 = ones + 1 - bit(&words, p) as usize;
    check_post(&bv, n, ones1, j, exp);
    bv.extend([75usize]);
    let exp2 = if j == 75 { true } else if j < n { exp } else { false };
    check_post(&bv, 76, ones1 + 1, j, exp2);
    kani::cover!(bit(&words, p), "position already set");
    core::mem::forget(bv);
}

// @h props=C08 tier=quick family=T mem=6 timeout=1200 role=bitvectormut.from_positions
// @bound FromIterator<usize> on the concrete increasing lists [] / [3] / [0, 63, 64, 511, 512] and Extend<usize> past the end of a 3-bit vector; every position observed
// @funcs BitVectorMut::from_iter<usize>, BitVectorMut::extend<usize>, BitVectorMut::extend_with_zeros, BitVectorMut::set, BitVector::from_iter
#[kani::proof]
#[kani::unwind(18)]
fn c08_from_positions() {
    let j: usize = kani::any();
    let e: [usize; 0] = [];
    let bv: BitVectorMut = e.into_iter().collect();
    check_post(&bv, 0, 0, j, false);
    let bv: BitVectorMut = [3usize].into_iter().collect();
    check_post(&bv, 4, 1, j, j == 3);
    let bv: BitVectorMut = [0usize, 63, 64, 511, 512].into_iter().collect();
    check_post(&bv, 513, 5, j, j == 0 || j == 63 || j == 64 || j == 511 || j == 512);
    let mut b2 = BitVectorMut::new();
    b2.push(true);
    b2.push(false);
    b2.push(true);
    b2.extend([2usize, 70]);
    check_post(&b2, 71, 3, j, j == 0 || j == 2 || j == 70);
    kani::cover!(j == 512, "bit in the second line");
    core::mem::forget(bv);
    core::mem::forget(b2);
}

// ------------------------------------------------------------------------------------------ observers

macro_rules! obs_get_bits {
    ($name:ident, $l:expr, $mk:ident) => {
        #[kani::proof]
        #[kani::unwind(18)]
        fn $name() {
            let (words, n) = any_words::<$l>();
            let bv = $mk::<$l>(&words, n);
            let i: usize = kani::any();
            let len: usize = kani::any();
            let r = bv.get_bits(i, len);
            let valid = len >= 1 && len <= 64 && i <= n && len <= n - i;
            kani::cover!($l == 0 || (valid && len == 64 && i % 64 != 0), "unaligned 64-bit read");
            kani::cover!($l == 0 || (valid && len == n - i), "read ending at the last bit");
            if valid {
                assert!(r.is_some());
                let v = r.unwrap();
                // bit t of the result is bit i+t of the sequence; nothing above len
                let t: usize = kani::any();
                kani::assume(t < 64);
                if t < len {
                    assert!(((v >> t) & 1 == 1) == bit(&words, i + t));
                } else {
                    assert!((v >> t) & 1 == 0);
                }
                // the unchecked twin agrees on valid arguments (C10)
                assert!(unsafe { bv.get_bits_unchecked(i, len) } == v);
            } else {
                assert!(r.is_none());
                kani::cover!(i == usize::MAX && len == 2, "index + len overflows");
                kani::cover!(len == 0, "zero length");
                kani::cover!(len == 65, "too long");
            }
            core::mem::forget(bv);
        }
    };
}
// @h props=C08,C04,C10 tier=quick family=A prof=AB mem=6 timeout=1800 role=bitvector.get_bits
// @bound BitVector: any valid state of 1..=512 bits; index and len over all usize
// @funcs BitVector::get_bits, BitVector::get_bits_unchecked, BitVectorMut::get_bits_slice, bitvector::cast_to_u64_slice
obs_get_bits!(c08_get_bits_imm_l1, 1, mk_imm);
// @h props=C08,C04,C10 tier=quick family=A prof=AB mem=6 timeout=1800 role=bitvectormut.get_bits
// @bound BitVectorMut: any valid state of 1..=512 bits; index and len over all usize
// @funcs BitVectorMut::get_bits, BitVectorMut::get_bits_unchecked, BitVectorMut::get_bits_slice
obs_get_bits!(c08_get_bits_mut_l1, 1, mk_mut);
// @h props=C08,C04 tier=quick family=A mem=6 timeout=1800 role=bitvector.get_bits
// @bound BitVector: empty; index and len over all usize
// @funcs BitVector::get_bits
obs_get_bits!(c08_get_bits_imm_l0, 0, mk_imm);
// @h props=C08,C04 tier=quick family=A mem=6 timeout=1800 role=bitvectormut.get_bits
// @bound BitVectorMut: empty; index and len over all usize
// @funcs BitVectorMut::get_bits
obs_get_bits!(c08_get_bits_mut_l0, 0, mk_mut);
// @h props=C08,C10:t tier=thorough family=A mem=6 timeout=2400 role=bitvector.get_bits
// @bound BitVector: any valid state of 513..=1024 bits (reads across the line boundary)
// @funcs BitVector::get_bits, BitVectorMut::get_bits_slice
obs_get_bits!(c08_get_bits_imm_l2, 2, mk_imm);
// @h props=C08,C10:t tier=thorough family=A mem=6 timeout=2400 role=bitvectormut.get_bits
// @bound BitVectorMut: any valid state of 513..=1024 bits
// @funcs BitVectorMut::get_bits, BitVectorMut::get_bits_slice
obs_get_bits!(c08_get_bits_mut_l2, 2, mk_mut);

macro_rules! obs_basic {
    ($name:ident, $l:expr, $mk:ident) => {
        #[kani::proof]
        #[kani::unwind(18)]
        fn $name() {
            let (words, n) = any_words::<$l>();
            let bv = $mk::<$l>(&words, n);
            assert!(bv.len() == n);
            assert!(bv.is_empty() == (n == 0));
            assert!(bv.count_ones() == popcount_words(&words));
            assert!(bv.count_zeros() == n - popcount_words(&words));
            let j: usize = kani::any();
            let g = bv.get(j);
            if j < n {
                assert!(g == Some(bit(&words, j)));
                assert!(unsafe { bv.get_unchecked(j) } == bit(&words, j));
            } else {
                assert!(g.is_none());
            }
            // whole-word reads, zero padding included
            kani::cover!(j == usize::MAX, "largest index");
            if $l > 0 {
                let wi: usize = kani::any();
                kani::assume(wi < 8 * $l); // documented panic otherwise (out-of-range word index)
                assert!(bv.get_word(wi) == words[wi]);
            }
            core::mem::forget(bv);
        }
    };
}
// @h props=C08,C04,C10 tier=quick family=A prof=AB mem=5 timeout=1200 role=bitvector.basic
// @bound BitVector: any valid state of 1..=512 bits; get index over all usize; get_word over every allocated word
// @funcs BitVector::get, BitVector::get_unchecked, BitVector::get_word, BitVector::len, BitVector::count_ones, BitVector::count_zeros, BitVectorMut::get_bit_slice
obs_basic!(c08_basic_imm_l1, 1, mk_imm);
// @h props=C08,C04,C10 tier=quick family=A prof=AB mem=5 timeout=1200 role=bitvectormut.basic
// @bound BitVectorMut: any valid state of 1..=512 bits
// @funcs BitVectorMut::get, BitVectorMut::get_unchecked, BitVectorMut::get_word, BitVectorMut::len, BitVectorMut::count_ones, BitVectorMut::count_zeros
obs_basic!(c08_basic_mut_l1, 1, mk_mut);
// @h props=C08,C04 tier=quick family=A mem=5 timeout=1200 role=bitvector.basic
// @bound BitVector: any valid state of 513..=1024 bits
// @funcs BitVector::get, BitVector::get_word
obs_basic!(c08_basic_imm_l2, 2, mk_imm);
// @h props=C08,C04 tier=quick family=E mem=5 timeout=1200 role=bitvector.basic
// @bound BitVector: empty state
// @funcs BitVector::get, BitVector::len
obs_basic!(c08_basic_imm_l0, 0, mk_imm);
// @h props=C08,C04 tier=quick family=E mem=5 timeout=1200 role=bitvectormut.basic
// @bound BitVectorMut: empty state
// @funcs BitVectorMut::get, BitVectorMut::len
obs_basic!(c08_basic_mut_l0, 0, mk_mut);

// @h props=C08,C19 tier=quick family=A mem=6 timeout=1800 role=bitvector.conversions
// @bound any valid state of 1..=512 bits: BitVectorMut -> BitVector -> BitVectorMut, Clone, == ; a vector differing in one symbolic bit is !=
// @funcs BitVector::from<BitVectorMut>, BitVectorMut::from<BitVector>, BitVectorMut::clone, BitVector::clone, BitVector::eq, BitVectorMut::eq
#[kani::proof]
#[kani::unwind(66)]
fn c08_conversions_l1() {
    let (words, n) = any_words::<1>();
    let m = mk_mut::<1>(&words, n);
    let m2 = m.clone();
    assert!(m == m2);
    let im: BitVector = m.into();
    assert!(im.len() == n);
    assert!(im.count_ones() == popcount_words(&words));
    let j: usize = kani::any();
    kani::assume(j < n);
    assert!(im.get(j) == Some(bit(&words, j)));
    let im2 = im.clone();
    assert!(im == im2);
    let back: BitVectorMut = im.into();
    assert!(back == m2);
    assert!(back.get(j) == Some(bit(&words, j)));
    // same length, one bit different  =>  not equal
    let mut other = m2.clone();
    other.set(j, !bit(&words, j));
    assert!(other != m2);
    kani::cover!(n == 512, "full line");
    core::mem::forget(m2);
    core::mem::forget(im2);
    core::mem::forget(back);
    core::mem::forget(other);
}

// @h props=C08,C19 tier=thorough family=T mem=6 timeout=1800 role=bitvector.from_bools
// @bound FromIterator<bool> for both types on 3 symbolic booleans; agrees with pushes and with the position-based constructor
// @funcs BitVector::from_iter<bool>, BitVectorMut::from_iter<bool>, BitVectorMut::extend<bool>, BitVectorMut::shrink_to_fit, BitVector::from_iter<usize>
#[kani::proof]
#[kani::unwind(66)]
fn c08_from_bools() {
    let b: [bool; 3] = kani::any();
    let m: BitVectorMut = b.into_iter().collect();
    let im: BitVector = b.into_iter().collect();
    let mut p = BitVectorMut::new();
    p.push(b[0]);
    p.push(b[1]);
    p.push(b[2]);
    assert!(m == p);
    let j: usize = kani::any();
    let e = if j < 3 { Some(b[j % 3]) } else { None };
    assert!(m.get(j) == e);
    assert!(im.get(j) == e);
    assert!(im.len() == 3 && m.len() == 3);
    assert!(im.count_ones() == b[0] as usize + b[1] as usize + b[2] as usize);
    let im_from_m: BitVector = m.into();
    assert!(im_from_m == im);
    kani::cover!(b[0] && !b[1] && b[2], "mixed bits");
    core::mem::forget(p);
    core::mem::forget(im);
    core::mem::forget(im_from_m);
}

// @h props=C08 tier=quick family=A mem=4 timeout=600 expect=fail role=bitvectormut.twin
// @bound deliberately false twin: claims push never changes the number of ones
// @funcs BitVectorMut::push
#[kani::proof]
#[kani::unwind(18)]
fn c08_false_twin() {
    let (words, n) = any_words::<1>();
    let mut bv = mk_mut::<1>(&words, n);
    let b: bool = kani::any();
    bv.push(b);
    assert!(bv.count_ones() == popcount_words(&words));
}
