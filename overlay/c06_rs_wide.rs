//! C06 — RSWide: directory kernel, select stage on assembled directories, `new` establishes the layout,
//! tiny end-to-end laws. Child module of `bitvector::rs_wide`.
use super::super::verif_bv_common::*;
use super::*;

fn field(meta: u128, left: usize) -> usize {
    // documented layout |L1 (44 bits)|b1|b2|...|b7| : block j (1..=7) is the j-th 12-bit field from the top of the low 84 bits
    ((meta >> ((7 - left) * 12)) & 0xFFF) as usize
}

/// bits z..n are ones, everything else zero - computed at compile time so that set-up needs no unwinding
const fn pattern_words<const NW: usize>(z: usize, n: usize) -> [u64; NW] {
    let mut words = [0u64; NW];
    let mut wi = 0;
    while wi < NW {
        let mut b = 0;
        while b < 64 {
            let p = 64 * wi + b;
            if p >= z && p < n {
                words[wi] |= 1u64 << b;
            }
            b += 1;
        }
        wi += 1;
    }
    words
}

fn assemble(meta: &[u128], s0: &[usize], s1: &[usize], bv: BitVector, n_zeros: usize) -> RSWide {
    RSWide {
        bv,
        superblock_metadata: meta.to_vec().into_boxed_slice(),
        select_samples: [s0.to_vec().into_boxed_slice(), s1.to_vec().into_boxed_slice()],
        n_zeros,
    }
}

// @h props=C06,C04:t tier=quick family=K mem=5 timeout=1200 role=rswide.sub_block_rank
// @bound directory of 2 arbitrary 128-bit records; every block index 0..16: value = L1 + 12-bit field of the block (0 for the first block)
// @funcs RSWide::sub_block_rank, RSWide::superblock_rank
#[kani::proof]
#[kani::unwind(6)]
fn c06_wide_sub_block_rank_kernel() {
    let meta: [u128; 2] = kani::any();
    let rs = assemble(&meta, &[0, 1], &[0, 1], BitVector::default(), 0);
    let sb: usize = kani::any();
    kani::assume(sb < 16);
    let m = meta[sb / 8];
    let left = sb % 8;
    let exp = (m >> 84) as usize + if left == 0 { 0 } else { field(m, left) };
    assert!(rs.sub_block_rank(sb) == exp);
    kani::cover!(left == 7 && field(m, 7) >= 2048, "large counter in the last field");
    kani::cover!(left == 1 && field(m, 1) == 4095, "all twelve bits used");
    core::mem::forget(rs);
}

/// Directory invariant established by `RSWide::new` for a vector of NB 512-bit blocks (NB <= 16):
/// ranks are non-decreasing from block to block, grow by at most 512 per block, fields are relative
/// to their superblock, and the record after the last block carries the total.
fn any_directory<const NB: usize>() -> ([u128; 3], [usize; 17]) {
    // cumulative ones before block b (b = 0..=NB), chosen by the solver
    let inc: [u16; 16] = kani::any();
    let mut cum = [0usize; 17];
    let mut b = 0;
    while b < 16 {
        let d = if b < NB { inc[b] as usize } else { 0 };
        kani::assume(d <= 512);
        cum[b + 1] = cum[b] + d;
        b += 1;
    }
    let nsb = (NB + 7) / 8; // superblocks holding blocks
    let mut meta = [0u128; 3];
    let mut s = 0;
    while s < nsb {
        let base = cum[8 * s];
        let mut m: u128 = (base as u128) << 84;
        let mut j = 1;
        while j < 8 {
            let idx = 8 * s + j;
            // blocks past the end repeat the last value (what `new` writes for a partial superblock)
            let v = cum[if idx <= NB { idx } else { NB }] - base;
            m |= (v as u128) << ((7 - j) * 12);
            j += 1;
        }
        meta[s] = m;
        s += 1;
    }
    meta[nsb] = (cum[NB] as u128) << 84; // sentinel record: total rank
    (meta, cum)
}

macro_rules! select_stage {
    ($name:ident, $nb:expr, $ones:expr) => {
        #[kani::proof]
        #[kani::unwind(20)]
        fn $name() {
            const NB: usize = $nb;
            let (meta, cum) = any_directory::<NB>();
            let nsb = (NB + 7) / 8;
            let last = nsb; // index of the sentinel record
            let rs = assemble(&meta[..nsb + 1], &[0, last], &[0, last], BitVector::default(), 0);
            let k: usize = kani::any();
            // rank0 before block b is 512*b - cum[b]
            let total = if $ones { cum[NB] } else { 512 * NB - cum[NB] };
            kani::assume(k < total); // documented precondition of the stage
            let (blk, rank) = if $ones { rs.select1_subblock(k) } else { rs.select0_subblock(k) };
            assert!(blk < NB);
            let before = if $ones { cum[blk] } else { 512 * blk - cum[blk] };
            let after = if $ones { cum[blk + 1] } else { 512 * (blk + 1) - cum[blk + 1] };
            assert!(rank == before);
            assert!(before <= k && k < after); // the (k+1)-th one/zero lies in block blk
            kani::cover!(blk == NB - 1, "answer in the last block");
            kani::cover!(NB <= 8 || blk == 8, "answer in the first block of the second superblock");
            kani::cover!(blk == 0, "answer in the first block");
            core::mem::forget(rs);
        }
    };
}
// @h props=C06,C04:t,C10 tier=quick family=S mem=5 timeout=1800 role=rswide.select1_subblock
// @bound assembled directory of 11 blocks (two superblocks, the second partial) with arbitrary per-block populations 0..=512; every valid k
// @funcs RSWide::select1_subblock, RSWide::sub_block_rank, RSWide::superblock_rank
select_stage!(c06_wide_select1_stage_nb11, 11, true);
// @h props=C06,C04:t,C10 tier=quick family=S mem=5 timeout=1800 role=rswide.select0_subblock
// @bound assembled directory of 11 blocks with arbitrary per-block populations; every valid k (zeros)
// @funcs RSWide::select0_subblock, RSWide::sub_block_rank, RSWide::superblock_rank
select_stage!(c06_wide_select0_stage_nb11, 11, false);
// @h props=C06 tier=thorough family=S mem=5 timeout=1800 role=rswide.select1_subblock
// @bound assembled directory of exactly 16 blocks (two full superblocks)
// @funcs RSWide::select1_subblock, RSWide::sub_block_rank
select_stage!(c06_wide_select1_stage_nb16, 16, true);
// @h props=C06 tier=thorough family=S mem=5 timeout=1800 role=rswide.select0_subblock
// @bound assembled directory of exactly 16 blocks (two full superblocks)
// @funcs RSWide::select0_subblock, RSWide::sub_block_rank
select_stage!(c06_wide_select0_stage_nb16, 16, false);
// @h props=C06 tier=quick family=S mem=5 timeout=1800 role=rswide.select1_subblock
// @bound assembled directory of 3 blocks (one partial superblock)
// @funcs RSWide::select1_subblock, RSWide::sub_block_rank
select_stage!(c06_wide_select1_stage_nb3, 3, true);

/// `new` on L symbolic lines establishes the directory layout assumed by the stage harnesses.
macro_rules! new_layout {
    ($name:ident, $l:expr) => {
        #[kani::proof]
        #[kani::unwind(20)]
        fn $name() {
            let (words, n) = any_words::<$l>();
            let rs = RSWide::new(mk_imm::<$l>(&words, n));
            // one record per started superblock + the sentinel
            assert!(rs.superblock_metadata.len() == ($l + 7) / 8 + 1);
            let mut cum = 0usize;
            let mut b = 0;
            while b < $l {
                assert!(rs.sub_block_rank(b) == cum);
                let mut w = 0;
                while w < 8 {
                    cum += words[8 * b + w].count_ones() as usize;
                    w += 1;
                }
                b += 1;
            }
            // blocks after the last one (same superblock) and the sentinel record carry the total
            let q: usize = kani::any();
            kani::assume(q >= $l && q < 8 * (($l + 7) / 8));
            assert!(rs.sub_block_rank(q) == cum);
            assert!(rs.superblock_rank(($l + 7) / 8) == cum);
            assert!(rs.n_ones() == cum && rs.n_zeros() == n - cum);
            assert!(rs.bv_len() == n);
            // fewer than 8192 ones and zeros: one sample + the guard, for both symbols
            assert!(rs.select_samples[0].len() == 2 && rs.select_samples[1].len() == 2);
            assert!(rs.select_samples[0][0] == 0 && rs.select_samples[1][0] == 0);
            assert!(rs.select_samples[0][1] == ($l + 7) / 8 && rs.select_samples[1][1] == ($l + 7) / 8);
            kani::cover!(cum == n, "all ones");
            kani::cover!(cum == 0, "all zeros");
            core::mem::forget(rs);
        }
    };
}
// @h props=C06,C19:t tier=thorough family=T optional=yes mem=40 timeout=3600 role=rswide.new
// @bound RSWide::new on any bit vector of 1..=512 bits (one line, symbolic contents and length): directory layout, totals, samples
// @funcs RSWide::new, bitvector::DataLine::n_ones, bitvector::DataLine::n_zeros, RSWide::sub_block_rank, RSWide::n_ones, RSWide::n_zeros
new_layout!(c06_wide_new_l1, 1);
// @h props=C06 tier=thorough family=T optional=yes mem=45 timeout=3600 role=rswide.new
// @bound RSWide::new on any bit vector of 513..=1024 bits (two lines)
// @funcs RSWide::new, RSWide::sub_block_rank
new_layout!(c06_wide_new_l2, 2);

macro_rules! wide_rank_law {
    ($name:ident, $l:expr) => {
        #[kani::proof]
        #[kani::unwind(20)]
        fn $name() {
            let (words, n) = any_words::<$l>();
            let rs = RSWide::new(mk_imm::<$l>(&words, n));
            let i: usize = kani::any();
            let r = rs.rank1(i);
            let g = rs.get(i);
            if i < n {
                assert!(g == Some(bit(&words, i)));
                assert!(unsafe { rs.get_unchecked(i) } == bit(&words, i));
                let r1 = rs.rank1(i + 1);
                assert!(r.is_some() && r1.is_some());
                assert!(r1.unwrap() == r.unwrap() + bit(&words, i) as usize);
                assert!(rs.rank0(i) == Some(i - r.unwrap()));
                assert!(unsafe { rs.rank1_unchecked(i) } == r.unwrap());
                assert!(unsafe { rs.rank0_unchecked(i) } == i - r.unwrap());
            } else if i == n {
                assert!(g.is_none());
                assert!(r == Some(rs.n_ones()));
                assert!(rs.rank0(i) == Some(rs.n_zeros()));
                assert!(unsafe { rs.rank1_unchecked(i) } == rs.n_ones());
            } else {
                assert!(g.is_none() && r.is_none() && rs.rank0(i).is_none());
            }
            assert!(rs.rank1(0) == Some(0));
            kani::cover!(i.wrapping_add(1) == n, "last position");
            kani::cover!(i == usize::MAX, "largest position");
            core::mem::forget(rs);
        }
    };
}
// @h props=C06,C10:t tier=thorough family=T optional=yes mem=40 timeout=3600 role=rswide.rank
// @bound RSWide built by `new` from any bit vector of 1..=512 bits: get / rank1 / rank0 laws for every position of the machine range, checked and unchecked
// @funcs RSWide::new, RSWide::rank1, RSWide::rank1_unchecked, RSWide::rank0, RSWide::rank0_unchecked, RSWide::get, RSWide::get_unchecked, bitvector::DataLine::rank1
wide_rank_law!(c06_wide_rank_law_l1, 1);
// @h props=C06,C10:t tier=thorough family=T optional=yes mem=45 timeout=3600 role=rswide.rank
// @bound RSWide built by `new` from any bit vector of 513..=1024 bits
// @funcs RSWide::new, RSWide::rank1, RSWide::rank0
wide_rank_law!(c06_wide_rank_law_l2, 2);

// @h props=C06,C10:t tier=thorough family=T optional=yes mem=40 timeout=3600 role=rswide.select
// @bound RSWide built by `new` from any bit vector of 1..=64 bits (one symbolic word): select1 / select0 for every k of the machine range, checked and unchecked
// @funcs RSWide::new, RSWide::select1, RSWide::select0, RSWide::select1_unchecked, RSWide::select0_unchecked, RSWide::select1_subblock, RSWide::select0_subblock, bitvector::DataLine::select1_unchecked, bitvector::DataLine::select0_unchecked
#[kani::proof]
#[kani::unwind(20)]
fn c06_wide_select_law_word() {
    let n: usize = kani::any();
    kani::assume(n >= 1 && n <= 64);
    let w: u64 = kani::any();
    let mut words = [0u64; W];
    words[0] = if n == 64 { w } else { w & ((1u64 << n) - 1) };
    let rs = RSWide::new(mk_imm::<1>(&words, n));
    let ones = words[0].count_ones() as usize;
    let k: usize = kani::any();
    let s1 = rs.select1(k);
    if k < ones {
        let p = s1.unwrap();
        assert!(p < n && bit(&words, p));
        assert!(rs.rank1(p) == Some(k));
        assert!(unsafe { rs.select1_unchecked(k) } == p);
    } else {
        assert!(s1.is_none());
    }
    let s0 = rs.select0(k);
    if k < n - ones {
        let p = s0.unwrap();
        assert!(p < n && !bit(&words, p));
        assert!(rs.rank0(p) == Some(k));
        assert!(unsafe { rs.select0_unchecked(k) } == p);
    } else {
        assert!(s0.is_none());
    }
    kani::cover!(k < ones && k + 1 == ones, "last one selected");
    kani::cover!(k == usize::MAX, "largest k");
    core::mem::forget(rs);
}

macro_rules! wide_concrete {
    ($name:ident, $l:expr, $n:expr, $z:expr, $unw:expr) => {
        #[kani::proof]
        #[kani::unwind($unw)]
        #[kani::stub(crate::utils::select_in_word, crate::utils::verif_utils_stubs::select_in_word_contract)]
        fn $name() {
            const N: usize = $n;
            const Z: usize = $z;
            const WORDS: [u64; 8 * $l] = pattern_words::<{ 8 * $l }>($z, $n);
            let mut lines: Vec<crate::bitvector::DataLine> = Vec::with_capacity($l);
            let mut l = 0;
            while l < $l {
                let mut dl = crate::bitvector::DataLine::default();
                let mut k = 0;
                while k < 8 {
                    dl.words[k] = WORDS[8 * l + k];
                    k += 1;
                }
                lines.push(dl);
                l += 1;
            }
            let bv = BitVector { data: lines.into_boxed_slice(), n_bits: N, n_ones: N - Z };
            let rs = RSWide::new(bv);
            assert!(rs.n_ones() == N - Z && rs.n_zeros() == Z);
            let i: usize = kani::any();
            let r = rs.rank1(i);
            if i <= N {
                assert!(r == Some(if i > Z { i - Z } else { 0 }));
                assert!(rs.rank0(i) == Some(if i > Z { Z } else { i }));
            } else {
                assert!(r.is_none());
            }
            let k: usize = kani::any();
            let s1 = rs.select1(k);
            if k < N - Z {
                assert!(s1 == Some(Z + k));
            } else {
                assert!(s1.is_none());
            }
            let s0 = rs.select0(k);
            if k < Z {
                assert!(s0 == Some(k));
            } else {
                assert!(s0.is_none());
            }
            kani::cover!(k.wrapping_add(1) == N - Z, "last one selected");
            kani::cover!(i == N, "rank at the end");
            core::mem::forget(rs);
        }
    };
}
// @h props=C06:t,C04:t,C03:t tier=thorough family=T optional=yes mem=40 timeout=3600 stubs=utils::select_in_word->contract role=rswide.concrete.zeros_then_ones
// @bound RSWide::new on 700 zeros followed by 2400 ones (3100 bits = 7 lines: block counters above 2047), rank position and select index symbolic over the machine range
// @funcs RSWide::new, RSWide::rank1, RSWide::rank0, RSWide::select1, RSWide::select0, RSWide::sub_block_rank, bitvector::DataLine::rank1, bitvector::DataLine::select1_unchecked
wide_concrete!(c06_wide_concrete_z700_n3100, 7, 3100, 700, 12);
// @h props=C06:t,C04:t tier=thorough family=T optional=yes mem=40 timeout=3600 stubs=utils::select_in_word->contract role=rswide.concrete.two_superblocks
// @bound RSWide::new on 4100 zeros followed by 600 ones (4700 bits = 10 lines, two superblocks), queries symbolic
// @funcs RSWide::new, RSWide::rank1, RSWide::select1, RSWide::select0
wide_concrete!(c06_wide_concrete_z4100_n4700, 10, 4700, 4100, 14);
// @h props=C06 tier=thorough family=T optional=yes mem=45 timeout=3600 stubs=utils::select_in_word->contract role=rswide.concrete.hint_period
// @bound RSWide::new on the all-ones vector of 8704 bits (17 lines: more than 8192 ones, two hint periods), queries symbolic
// @funcs RSWide::new, RSWide::rank1, RSWide::select1, RSWide::select0
wide_concrete!(c06_wide_concrete_ones8704, 17, 8704, 0, 21);

// @h props=C06,C04,C03:t tier=quick family=E mem=5 timeout=1200 role=rswide.empty
// @bound empty and Default RSWide: every query with arguments over the machine range gives no position and no non-zero count
// @funcs RSWide::new, RSWide::default, RSWide::rank1, RSWide::rank0, RSWide::select1, RSWide::select0, RSWide::get, RSWide::n_ones, RSWide::n_zeros
#[kani::proof]
#[kani::unwind(20)]
fn c06_wide_empty() {
    let i: usize = kani::any();
    let built = RSWide::new(BitVector::default());
    let dflt = RSWide::default();
    for rs in [&built, &dflt] {
        assert!(rs.get(i).is_none());
        let r = rs.rank1(i);
        assert!(r.is_none() || r == Some(0));
        let r0 = rs.rank0(i);
        assert!(r0.is_none() || r0 == Some(0));
        assert!(rs.select1(i).is_none());
        assert!(rs.select0(i).is_none());
        assert!(rs.n_ones() == 0 && rs.n_zeros() == 0 && rs.bv_len() == 0);
    }
    kani::cover!(i == 0, "position zero");
    core::mem::forget(built);
    core::mem::forget(dflt);
}

// @h props=C06 tier=quick family=S mem=6 timeout=900 expect=fail role=rswide.twin
// @bound deliberately false twin: claims the selected block is always block 0
// @funcs RSWide::select1_subblock
#[kani::proof]
#[kani::unwind(20)]
fn c06_wide_false_twin() {
    let (meta, cum) = any_directory::<3>();
    let rs = assemble(&meta[..2], &[0, 1], &[0, 1], BitVector::default(), 0);
    let k: usize = kani::any();
    kani::assume(k < cum[3]);
    let (blk, _) = rs.select1_subblock(k);
    assert!(blk == 0);
    core::mem::forget(rs);
}

// ------------------------------------------------------------------ rank on assembled states (layout given)

macro_rules! wide_rank_assembled {
    ($name:ident, $l:expr) => {
        #[kani::proof]
        #[kani::unwind(20)]
        fn $name() {
            // directory written from its definition for symbolic contents: what new_layout shows `new` establishes
            let (words, n) = any_words::<$l>();
            let mut meta = [0u128; 2];
            let mut cum = [0usize; 3];
            let mut l = 0;
            while l < 2 {
                let mut c = 0usize;
                let mut w = 0;
                while w < 8 {
                    c += words[8 * l + w].count_ones() as usize;
                    w += 1;
                }
                cum[l + 1] = cum[l] + if l < $l { c } else { 0 };
                l += 1;
            }
            // one superblock: fields of blocks 1..7 (blocks past the end repeat the total), then the sentinel record
            let mut m: u128 = 0;
            let mut j = 1;
            while j < 8 {
                let v = cum[if j <= $l { j } else { $l }];
                m |= (v as u128) << ((7 - j) * 12);
                j += 1;
            }
            meta[0] = m;
            meta[1] = (cum[$l] as u128) << 84;
            let rs = assemble(&meta, &[0, 1], &[0, 1], mk_imm::<$l>(&words, n), n - cum[$l]);
            let i: usize = kani::any();
            let r = rs.rank1(i);
            if i < n {
                let r1 = rs.rank1(i + 1);
                assert!(r.is_some() && r1.is_some());
                assert!(r1.unwrap() == r.unwrap() + bit(&words, i) as usize);
                assert!(rs.rank0(i) == Some(i - r.unwrap()));
                assert!(unsafe { rs.rank1_unchecked(i) } == r.unwrap());
                assert!(unsafe { rs.rank0_unchecked(i) } == i - r.unwrap());
                assert!(rs.get(i) == Some(bit(&words, i)));
            } else if i == n {
                assert!(r == Some(cum[$l]));
                assert!(unsafe { rs.rank1_unchecked(i) } == cum[$l]);
                assert!(rs.n_ones() == cum[$l] && rs.n_zeros() == n - cum[$l]);
            } else {
                assert!(r.is_none() && rs.rank0(i).is_none() && rs.get(i).is_none());
            }
            assert!(rs.rank1(0) == Some(0));
            assert!(unsafe { rs.rank1_unchecked(0) } == 0);
            kani::cover!(i.wrapping_add(1) == n, "last position");
            kani::cover!(i == usize::MAX, "largest position");
            kani::cover!(i == 512 && $l == 2, "first position of the second block");
            core::mem::forget(rs);
        }
    };
}
// @h props=C06,C04:t,C10:t tier=quick family=A prof=A mem=6 timeout=1800 role=rswide.rank.assembled
// @bound RSWide assembled over any bit vector of 513..=1024 bits (two blocks) with the directory written from its definition: rank1 / rank0 / get laws for every position of the machine range, checked and unchecked
// @funcs RSWide::rank1, RSWide::rank1_unchecked, RSWide::rank0, RSWide::rank0_unchecked, RSWide::get, RSWide::sub_block_rank, bitvector::DataLine::rank1
wide_rank_assembled!(c06_wide_rank_assembled_l2, 2);
