//! Accessor needed by the tree overlays (PrefetchSupport's fields are private to its module).
#![allow(dead_code)]
use super::*;
impl PrefetchSupport {
    pub(crate) fn verif_set_shift(&mut self, s: usize) {
        self.sample_rate_shift = s;
    }
    pub(crate) fn verif_samples(&self) -> &Vec<RSNarrow> {
        &self.samples
    }
}
