//! Shared state builders for the `bitvector` overlays (no harnesses). Child module of `bitvector`.
//! Representation invariant of BitVector / BitVectorMut assumed for assembled states (and checked as a
//! post-condition of every mutator in c08): data.len() == ceil(n_bits/512), bits >= n_bits are 0,
//! n_ones == popcount(data).
#![allow(dead_code)]
use super::*;

pub(crate) const W: usize = 16; // two 512-bit lines

/// Arbitrary valid state with exactly `L` lines: (words, n_bits, n_ones).
pub(crate) fn any_words<const L: usize>() -> ([u64; W], usize) {
    let n: usize = kani::any();
    if L == 0 {
        kani::assume(n == 0);
    } else {
        kani::assume(n > 512 * (L - 1) && n <= 512 * L);
    }
    let raw: [u64; W] = kani::any();
    let mut words = [0u64; W];
    let mut wi = 0;
    while wi < W {
        let lo = 64 * wi;
        words[wi] = if lo >= n {
            0
        } else if n - lo >= 64 {
            raw[wi]
        } else {
            raw[wi] & ((1u64 << (n - lo)) - 1)
        };
        wi += 1;
    }
    (words, n)
}

pub(crate) fn popcount_words(words: &[u64; W]) -> usize {
    let mut c = 0usize;
    let mut wi = 0;
    while wi < W {
        c += words[wi].count_ones() as usize;
        wi += 1;
    }
    c
}

pub(crate) fn lines_of<const L: usize>(words: &[u64; W]) -> Vec<DataLine> {
    let mut v: Vec<DataLine> = Vec::with_capacity(L);
    let mut l = 0;
    while l < L {
        let mut dl = DataLine::default();
        let mut k = 0;
        while k < 8 {
            dl.words[k] = words[8 * l + k];
            k += 1;
        }
        v.push(dl);
        l += 1;
    }
    v
}

pub(crate) fn mk_mut<const L: usize>(words: &[u64; W], n: usize) -> BitVectorMut {
    BitVectorMut { data: lines_of::<L>(words), n_bits: n, n_ones: popcount_words(words) }
}

pub(crate) fn mk_imm<const L: usize>(words: &[u64; W], n: usize) -> BitVector {
    BitVector { data: lines_of::<L>(words).into_boxed_slice(), n_bits: n, n_ones: popcount_words(words) }
}

#[inline]
pub(crate) fn bit(words: &[u64; W], j: usize) -> bool {
    (words[j >> 6] >> (j & 63)) & 1 == 1
}

/// Arbitrary contents at a CONCRETE length (mutators that allocate: a symbolic length makes every
/// `Vec` growth a symbolic-size allocation and CBMC runs out of memory).
pub(crate) fn words_at<const L: usize>(n: usize) -> [u64; W] {
    let raw: [u64; W] = kani::any();
    let mut words = [0u64; W];
    let mut wi = 0;
    while wi < W {
        let lo = 64 * wi;
        words[wi] = if lo >= n {
            0
        } else if n - lo >= 64 {
            raw[wi]
        } else {
            raw[wi] & ((1u64 << (n - lo)) - 1)
        };
        wi += 1;
    }
    words
}


/// One-line BitVector from the first 8 words (8-iteration loops only: for harnesses that keep the unwind bound at 10).
pub(crate) fn mk_imm_line(words: &[u64; W], n: usize) -> BitVector {
    let mut dl = DataLine::default();
    let mut k = 0;
    while k < 8 {
        dl.words[k] = words[k];
        k += 1;
    }
    BitVector { data: vec![dl].into_boxed_slice(), n_bits: n, n_ones: 0 }
}
