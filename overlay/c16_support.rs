//! C16 — reported vs. retained bytes, RSSupportPlain (assembled: buffer lengths symbolic, independent).
//! retained := size_of_val(x) + sum over owned buffers of len * size_of(element)   (allocator rounding excluded)
//! tolerance := retained/32 + 48 bytes per component: a dropped or double-counted component outweighs it
//! at the largest lengths explored. Child module of `qvector::rs_qvector::rs_support_plain`.
use super::*;
use crate::SpaceUsage;
use std::mem::size_of;

fn within(reported: usize, retained: usize, components: usize) -> bool {
    let tol = retained / 32 + 24 * components;
    (if reported > retained { reported - retained } else { retained - reported }) <= tol
}

// @h props=C16,C04:t tier=quick family=A mem=16 timeout=1800 role=space.rssupportplain
// @bound RSSupportPlain<256/512> with 0..=3 superblock records and four select-sample buffers of 0..=32 entries each, all lengths symbolic and independent; KiB/MiB/GiB are the byte count scaled
// @funcs RSSupportPlain::space_usage_byte, SuperblockPlain::space_usage_byte, Box<[T]>::space_usage_byte, SpaceUsage::space_usage_KiB, SpaceUsage::space_usage_MiB, SpaceUsage::space_usage_GiB
#[kani::proof]
#[kani::unwind(34)]
fn c16_rssupportplain() {
    let sb = kani::vec::any_vec::<[u128; 4], 3>();
    let nsb = sb.len();
    let mut sbs: Vec<SuperblockPlain> = Vec::with_capacity(3);
    let mut j = 0;
    while j < 3 {
        if j < nsb {
            sbs.push(SuperblockPlain { counters: sb[j] });
        }
        j += 1;
    }
    let s0 = kani::vec::any_vec::<u32, 32>();
    let s1 = kani::vec::any_vec::<u32, 32>();
    let s2 = kani::vec::any_vec::<u32, 32>();
    let s3 = kani::vec::any_vec::<u32, 32>();
    let retained = size_of::<RSSupportPlain<256>>() + 64 * nsb + 4 * (s0.len() + s1.len() + s2.len() + s3.len());
    let rs = RSSupportPlain::<256> {
        superblocks: sbs.into_boxed_slice(),
        select_samples: [s0.into_boxed_slice(), s1.into_boxed_slice(), s2.into_boxed_slice(), s3.into_boxed_slice()],
    };
    let rep = rs.space_usage_byte();
    assert!(within(rep, retained, 5));
    assert!(rs.space_usage_KiB() == rep as f64 / 1024.0);
    assert!(rs.space_usage_MiB() == rep as f64 / (1024.0 * 1024.0));
    assert!(rs.space_usage_GiB() == rep as f64 / (1024.0 * 1024.0 * 1024.0));
    kani::cover!(nsb == 3, "largest directory");
    kani::cover!(rs.select_samples[3].len() == 32 && nsb == 0, "only one sample buffer is large");
    core::mem::forget(rs);
    core::mem::forget(sb);
}
